// Package simrt is the runtime shim that instrumented copies of go-bt import.
// It provides a cooperative scheduler in which exactly one task runs at a time
// and the next task is a choice on the simulator's tape, simulated
// RWMutex/Mutex with Go's writer-preference semantics, a simulated clock, and a
// vector-clock (FastTrack-style) data-race detector over instrumented accesses.
//
// With no scheduler installed every shim degrades to the plain behaviour
// (real mutexes, real clock, no recording), so instrumented code also runs
// outside a simulation (set-up, solo reference runs).
package simrt

import (
	"fmt"
	"reflect"
	"sort"
	"sync"
	"time"
)

// Chooser is the simulator's choice source (the tape).
type Chooser interface{ Choose(n int) int }

// Access kinds.
const (
	Read     = 0
	Write    = 1
	MapRead  = 2
	MapWrite = 3
)

// Race is one detected data race.
type Race struct {
	Loc   string
	A, B  string // "task kind site [locks]"
	SiteA string
	SiteB string
	Desc  string
}

type access struct {
	task  int
	clock uint32
	site  string
	write bool
	locks string
}

type location struct {
	ref   interface{} // keeps the object alive so its address is not reused within a run
	name  string
	write *access
	reads map[int]*access
}

// Task is one simulated caller thread.
type Task struct {
	ID      int
	Name    string
	wake    chan struct{}
	done    bool
	vc      []uint32
	blocked *RWMutex
	wantW   bool
	held    []string
	Steps   int
	fn      func()
	panicV  interface{}
	daemon  bool // the timer task: runs only when a fired timer is waiting, does not keep Run alive
	parked  bool // timer task only: waiting for a timer to fire (inside a timer function it is a task like any other)
}

// Sched is the cooperative scheduler.
type Sched struct {
	ch           Chooser
	tasks        []*Task
	cur          *Task
	back         chan struct{}
	Seq          uint64
	MaxSteps     int
	Policy       int // 0 uniform, 1 sticky, 2 priority with change points
	Stick        int // for sticky: stay with probability Stick/100
	prio         []int
	changeAt     map[int]bool
	steps        int
	locs         map[uintptr]*location
	Races        []Race
	Deadlock     string
	Overrun      bool
	trace        uint64
	TraceLog     []string
	KeepLog      bool
	now          time.Time
	Accesses     int
	quietLocs    int
	QuietDropped int // accesses to not-yet-known locations of late-shared types that went unrecorded (cap reached)
	Yields       int
	lockIDs      map[*RWMutex]int
	every        int
	atoms        map[uintptr]*atomLoc
	travel       int64
	fnCount      int
	BlockedRW    int // probe: a writer had to wait behind readers / reader behind pending writer
	timers       []*Timer
	stopTimer    bool
	TimersRun    int // probe: timer functions executed
}

// S is the installed scheduler (nil: shims are pass-through).
var S *Sched

// Install makes s the active scheduler.
func Install(s *Sched) { S = s }

// Uninstall removes the active scheduler.
func Uninstall() { S = nil }

// NewSched builds a scheduler drawing choices from ch.
func NewSched(ch Chooser, start time.Time) *Sched {
	return &Sched{ch: ch, back: make(chan struct{}), MaxSteps: 20000, locs: map[uintptr]*location{}, now: start, changeAt: map[int]bool{}}
}

// Go registers a task. Tasks start parked; Run releases them one at a time.
func (s *Sched) Go(name string, f func()) *Task {
	t := &Task{ID: len(s.tasks), Name: name, wake: make(chan struct{}), fn: f}
	s.tasks = append(s.tasks, t)
	return t
}

func (s *Sched) logf(format string, a ...interface{}) {
	line := fmt.Sprintf(format, a...)
	for i := 0; i < len(line); i++ {
		s.trace = (s.trace ^ uint64(line[i])) * 1099511628211
	}
	s.trace = (s.trace ^ 0xff) * 1099511628211
	if s.KeepLog && len(s.TraceLog) < 3000 {
		s.TraceLog = append(s.TraceLog, line)
	}
}

// TraceHash identifies the schedule (sequence of (task, site) pairs).
func (s *Sched) TraceHash() uint64 { return s.trace }

// Cur is the running task (nil outside tasks).
func (s *Sched) Cur() *Task { return s.cur }

func (s *Sched) enabled(t *Task) bool {
	if t.done {
		return false
	}
	if t.daemon && t.parked {
		return s.timerQueued() != nil
	}
	if t.blocked == nil {
		return true
	}
	if t.wantW {
		return t.blocked.canLock()
	}
	return t.blocked.canRLock(t)
}

// Run executes all tasks to completion under the seeded schedule.
func (s *Sched) Run() {
	// the task that runs timer functions (time.AfterFunc in instrumented code): like the runtime's timer goroutines
	// it exists from the start, is runnable only while a fired timer waits, and does not keep the run alive
	td := s.Go("timers", s.timerLoop)
	td.daemon, td.parked = true, true
	n := len(s.tasks)
	for _, t := range s.tasks {
		t.vc = make([]uint32, n)
		t.vc[t.ID] = 1
	}
	if s.Policy == 2 {
		s.prio = make([]int, n)
		perm := make([]int, n)
		for i := range perm {
			perm[i] = i
		}
		for i := n - 1; i > 0; i-- {
			j := s.ch.Choose(i + 1)
			perm[i], perm[j] = perm[j], perm[i]
		}
		for i, p := range perm {
			s.prio[p] = i + 10
		}
		d := 1 + s.ch.Choose(3)
		for i := 0; i < d; i++ {
			s.changeAt[s.ch.Choose(200)] = true
		}
	}
	for _, t := range s.tasks {
		t := t
		go func() {
			<-t.wake
			defer func() {
				if r := recover(); r != nil {
					t.panicV = r
				}
				t.done = true
				s.back <- struct{}{}
			}()
			t.fn()
		}()
	}
	var last *Task
	for {
		var en []*Task
		alive := 0
		for _, t := range s.tasks {
			if !t.done {
				if !t.daemon || !t.parked {
					alive++
				}
				if s.enabled(t) {
					en = append(en, t)
				}
			}
		}
		if alive == 0 && len(en) == 0 {
			break
		}
		if len(en) == 0 {
			s.Deadlock = s.describeDeadlock()
			s.logf("DEADLOCK %s", s.Deadlock)
			// leave the parked goroutines behind; they hold no real resources
			break
		}
		if s.steps >= s.MaxSteps {
			s.Overrun = true
			break
		}
		var pick *Task
		switch s.Policy {
		case 1:
			stay := false
			if last != nil && s.enabled(last) && len(en) > 1 {
				stay = s.ch.Choose(100) < s.Stick
			} else if last != nil && s.enabled(last) {
				stay = true
			}
			if stay {
				pick = last
			} else if len(en) == 1 {
				pick = en[0]
			} else {
				pick = en[s.ch.Choose(len(en))]
			}
		case 2:
			if s.changeAt[s.steps] && last != nil {
				s.prio[last.ID] = -s.steps // drop the running task to the lowest priority
			}
			best := en[0]
			for _, t := range en[1:] {
				if s.prio[t.ID] > s.prio[best.ID] {
					best = t
				}
			}
			pick = best
		default:
			pick = en[0]
			if len(en) > 1 {
				pick = en[s.ch.Choose(len(en))]
			}
		}
		s.steps++
		pick.Steps++
		s.cur = pick
		last = pick
		pick.wake <- struct{}{}
		<-s.back
		s.cur = nil
	}
	s.cur = nil
	if !td.done && s.Deadlock == "" && !s.Overrun {
		// let the timer task's goroutine end
		s.stopTimer = true
		s.cur = td
		td.wake <- struct{}{}
		<-s.back
		s.cur = nil
	}
}

// ---- simulated timers ----

// Timer is the shim for *time.Timer values created by time.AfterFunc in instrumented code. It fires when the simulated
// clock is moved to or past its deadline; its function then runs in the timer task whenever the scheduler picks it,
// so everything that can happen between "the timer fired" and "its function ran" is explored.
type Timer struct {
	owner    *Sched
	real     *time.Timer
	deadline time.Time
	f        func()
	state    int // 0 armed, 1 fired and waiting for the timer task, 2 function started, 3 stopped
	vc       []uint32
}

// AfterFunc is the shim for time.AfterFunc.
func AfterFunc(d time.Duration, f func()) *Timer {
	s, t := sim()
	if s == nil {
		return &Timer{real: time.AfterFunc(d, f)}
	}
	tm := &Timer{owner: s, deadline: s.now.Add(d), f: f, vc: append([]uint32(nil), t.vc...)}
	t.vc[t.ID]++
	s.timers = append(s.timers, tm)
	s.fireDue()
	return tm
}

// Stop is the shim for (*time.Timer).Stop: true if the call stops the timer, false if it has already fired or been stopped.
func (tm *Timer) Stop() bool {
	if tm.real != nil {
		return tm.real.Stop()
	}
	if tm.owner != S {
		return false
	}
	if tm.state == 0 {
		tm.state = 3
		return true
	}
	return false
}

// Reset is the shim for (*time.Timer).Reset.
func (tm *Timer) Reset(d time.Duration) bool {
	if tm.real != nil {
		return tm.real.Reset(d)
	}
	s, t := sim()
	if s == nil || tm.owner != s {
		return false
	}
	active := tm.state == 0
	tm.state, tm.deadline = 0, s.now.Add(d)
	tm.vc = append([]uint32(nil), t.vc...)
	t.vc[t.ID]++
	found := false
	for _, x := range s.timers {
		if x == tm {
			found = true
		}
	}
	if !found {
		s.timers = append(s.timers, tm)
	}
	s.fireDue()
	return active
}

// Until and Since are the shims for time.Until / time.Since.
func Until(t time.Time) time.Duration { return t.Sub(Now()) }
func Since(t time.Time) time.Duration { return Now().Sub(t) }

func (s *Sched) fireDue() {
	for _, tm := range s.timers {
		if tm.state == 0 && !tm.deadline.After(s.now) {
			tm.state = 1
		}
	}
}

func (s *Sched) timerQueued() *Timer {
	for _, tm := range s.timers {
		if tm.state == 1 {
			return tm
		}
	}
	return nil
}

func (s *Sched) timerLoop() {
	t := s.cur
	for {
		if s.stopTimer {
			return
		}
		tm := s.timerQueued()
		if tm == nil {
			// park: not enabled until a timer fires
			t.parked = true
			s.back <- struct{}{}
			<-t.wake
			continue
		}
		t.parked = false
		tm.state = 2
		join(t.vc, tm.vc) // starting a timer happens before its function runs
		t.vc[t.ID]++
		s.TimersRun++
		s.logf("%d@timer", t.ID)
		tm.f()
	}
}

// Panics returns the panic values of tasks that panicked.
func (s *Sched) Panics() []string {
	var out []string
	for _, t := range s.tasks {
		if t.panicV != nil {
			out = append(out, fmt.Sprintf("%s: %v", t.Name, t.panicV))
		}
	}
	return out
}

// Steps is the number of scheduler steps taken.
func (s *Sched) Steps() int { return s.steps }

func (s *Sched) describeDeadlock() string {
	out := ""
	for _, t := range s.tasks {
		if !t.done && t.blocked != nil {
			mode := "RLock"
			if t.wantW {
				mode = "Lock"
			}
			out += fmt.Sprintf("%s waits for %s(%s) [readers=%d writer=%v pendingWriters=%d; holds %v]; ", t.Name, mode, t.blocked.name(), len(t.blocked.readers), t.blocked.writer != nil, t.blocked.pending, t.held)
		}
	}
	return out
}

// yield hands control back to the scheduler from inside a task.
func (s *Sched) yield(site string) {
	t := s.cur
	if t == nil {
		return
	}
	s.Yields++
	s.Seq++
	s.logf("%d@%s", t.ID, site)
	s.back <- struct{}{}
	<-t.wake
}

// Yield is a scheduling point inserted at function entries of instrumented packages.
// Only every n-th entry actually yields (n set per run by YieldEvery).
func Yield(site string) {
	if s := S; s != nil && s.cur != nil {
		s.fnCount++
		if s.every > 1 && s.fnCount%s.every != 0 {
			return
		}
		s.yield(site)
	}
}

// YieldEvery sets the function-entry yield granularity for the installed scheduler.
func YieldEvery(n int) {
	if s := S; s != nil {
		s.every = n
	}
}

// YieldPoint is a scheduling point for harness code (API-call boundaries, callbacks).
func YieldPoint(site string) {
	if s := S; s != nil && s.cur != nil {
		s.yield(site)
	}
}

// Stamp returns the next global event sequence number (for invoke/return stamping).
func Stamp() uint64 {
	if s := S; s != nil {
		s.Seq++
		return s.Seq
	}
	return 0
}

// Now is the simulated clock (real clock when no scheduler is installed).
func Now() time.Time {
	if s := S; s != nil {
		return s.now
	}
	return time.Now()
}

// ClockSet moves the simulated clock (forward or backward).
func ClockSet(t time.Time) {
	if s := S; s != nil {
		d := t.Sub(s.now)
		if d < 0 {
			d = -d
		}
		s.travel += int64(d)
		s.now = t
		s.fireDue()
	}
}

// ClockTravel is the total simulated time covered by clock movements (absolute values summed).
func (s *Sched) ClockTravel() int64 { return s.travel }

func join(a, b []uint32) {
	for i := range b {
		if b[i] > a[i] {
			a[i] = b[i]
		}
	}
}

func (s *Sched) loc(addr uintptr, ref interface{}, name string) *location {
	l := s.locs[addr]
	if l == nil {
		l = &location{ref: ref, name: name, reads: map[int]*access{}}
		s.locs[addr] = l
	}
	return l
}

func (s *Sched) report(l *location, a, b *access) {
	kind := func(x *access) string {
		if x.write {
			return "write"
		}
		return "read"
	}
	ta, tb := s.tasks[a.task].Name, s.tasks[b.task].Name
	r := Race{Loc: l.name, SiteA: a.site, SiteB: b.site,
		A: fmt.Sprintf("%s %s at %s holding [%s]", ta, kind(a), a.site, a.locks),
		B: fmt.Sprintf("%s %s at %s holding [%s]", tb, kind(b), b.site, b.locks)}
	r.Desc = fmt.Sprintf("data race on %s: %s  <->  %s (no happens-before between them)", l.name, r.A, r.B)
	for _, x := range s.Races {
		if x.SiteA == r.SiteA && x.SiteB == r.SiteB && x.Loc == r.Loc {
			return
		}
	}
	s.Races = append(s.Races, r)
	s.logf("RACE %s", r.Desc)
}

// quietCap bounds the number of locations one run records for types that are shared only because a package-level
// variable of them is written (AccQ / AccStructQ): such types are touched millions of times in a long run and every
// recorded location keeps its object alive. Past the cap, accesses to locations not seen before go unrecorded
// (QuietDropped counts them); locations already known -- the package-level variables themselves are touched first --
// are still checked.
const quietCap = 1 << 20

func (s *Sched) accessQ(addr uintptr, ref interface{}, name string, write bool, site string) {
	if s.locs[addr] == nil {
		if s.quietLocs >= quietCap {
			s.QuietDropped++
			return
		}
		s.quietLocs++
	}
	s.access(addr, ref, name, write, site)
}

func (s *Sched) access(addr uintptr, ref interface{}, name string, write bool, site string) {
	t := s.cur
	s.Accesses++
	l := s.loc(addr, ref, name)
	me := &access{task: t.ID, clock: t.vc[t.ID], site: site, write: write, locks: fmt.Sprint(t.held)}
	if w := l.write; w != nil && w.task != t.ID && w.clock > t.vc[w.task] {
		s.report(l, w, me)
	}
	if write {
		ids := make([]int, 0, len(l.reads))
		for id := range l.reads {
			ids = append(ids, id)
		}
		sort.Ints(ids)
		for _, id := range ids {
			r := l.reads[id]
			if r.task != t.ID && r.clock > t.vc[r.task] {
				s.report(l, r, me)
			}
		}
		l.write = me
		l.reads = map[int]*access{}
	} else {
		l.reads[t.ID] = me
	}
}

// Acc records (and yields before) an access to a shared field. p is &x.f.
// For map-typed fields the instrumenter additionally calls AccMap.
func Acc(p interface{}, kind int, site string) {
	s := S
	if s == nil || s.cur == nil {
		return
	}
	s.yield(site)
	v := reflect.ValueOf(p)
	if v.Kind() != reflect.Ptr || v.IsNil() {
		return
	}
	s.access(v.Pointer(), p, "field@"+site, kind == Write, site)
}

// AccQ is Acc for types that are touched all over the interpreter: the access is recorded for the race detector,
// but it is not a scheduling point (function entries are; the detector works on clocks, not on interleavings).
func AccQ(p interface{}, kind int, site string) {
	s := S
	if s == nil || s.cur == nil {
		return
	}
	v := reflect.ValueOf(p)
	if v.Kind() != reflect.Ptr || v.IsNil() {
		return
	}
	s.accessQ(v.Pointer(), p, "field@"+site, kind == Write, site)
}

// AccObj records an access to the object behind a package-level variable of a foreign type
// (p is the pointer / interface held by the variable, or its address for value-typed variables).
func AccObj(p interface{}, kind int, site string) {
	s := S
	if s == nil || s.cur == nil {
		return
	}
	v := reflect.ValueOf(p)
	for v.Kind() == reflect.Interface && !v.IsNil() {
		v = v.Elem()
	}
	if v.Kind() != reflect.Ptr || v.IsNil() {
		return
	}
	s.yield(site)
	s.access(v.Pointer(), p, "object@"+site, kind == Write, site)
}

// AccStruct records an access to every leaf field of the struct p points to
// (whole-struct copy or assignment through a pointer: *p = v, v := *p).
func AccStruct(p interface{}, kind int, site string) { accStruct(p, kind, site, false) }

// AccStructQ is AccStruct with AccQ's scheduling behaviour.
func AccStructQ(p interface{}, kind int, site string) { accStruct(p, kind, site, true) }

func accStruct(p interface{}, kind int, site string, quiet bool) {
	s := S
	if s == nil || s.cur == nil {
		return
	}
	v := reflect.ValueOf(p)
	if v.Kind() != reflect.Ptr || v.IsNil() || v.Elem().Kind() != reflect.Struct {
		return
	}
	if !quiet {
		s.yield(site)
	}
	var walk func(x reflect.Value)
	walk = func(x reflect.Value) {
		for i := 0; i < x.NumField(); i++ {
			f := x.Field(i)
			if pk := f.Type().PkgPath(); pk == "verif/simrt" || pk == "sync" {
				continue
			}
			if f.Kind() == reflect.Struct {
				walk(f)
			} else if f.CanAddr() {
				if quiet {
					s.accessQ(f.UnsafeAddr(), p, "field@"+site, kind == Write, site)
				} else {
					s.access(f.UnsafeAddr(), p, "field@"+site, kind == Write, site)
				}
			}
		}
	}
	walk(v.Elem())
}

// AccMap records an access to the contents of a map object (m is the map value).
func AccMap(m interface{}, kind int, site string) {
	s := S
	if s == nil || s.cur == nil {
		return
	}
	v := reflect.ValueOf(m)
	if v.Kind() != reflect.Map || v.IsNil() {
		return
	}
	s.access(v.Pointer(), m, "map@"+site, kind == MapWrite, site)
}

// ---- simulated locks ----

// RWMutex is the shim for sync.RWMutex.
type RWMutex struct {
	owner   *Sched // the scheduler this simulated state belongs to (package-level locks outlive a run)
	real    sync.RWMutex
	writer  *Task
	readers []*Task
	pending int // tasks blocked in Lock: they exclude new readers (Go's writer preference)
	relW    []uint32
	relR    []uint32
	label   string
}

// Mutex is the shim for sync.Mutex.
type Mutex struct{ rw RWMutex }

// Lock locks m.
func (m *Mutex) Lock() { m.rw.Lock() }

// Unlock unlocks m.
func (m *Mutex) Unlock() { m.rw.Unlock() }

// name is a per-run ordinal (never an address: logs must be identical across processes).
func (m *RWMutex) name() string {
	s := S
	if s == nil {
		return "L?"
	}
	if s.lockIDs == nil {
		s.lockIDs = map[*RWMutex]int{}
	}
	id, ok := s.lockIDs[m]
	if !ok {
		id = len(s.lockIDs)
		s.lockIDs[m] = id
	}
	return fmt.Sprintf("L%d", id)
}

func (m *RWMutex) canLock() bool { return m.writer == nil && len(m.readers) == 0 }

func (m *RWMutex) canRLock(t *Task) bool { return m.writer == nil && m.pending == 0 }

// adopt resets the simulated state of a lock that was last used under another scheduler (an earlier run).
func (m *RWMutex) adopt(s *Sched) {
	if m.owner != s {
		m.owner, m.writer, m.readers, m.pending, m.relW, m.relR = s, nil, nil, 0, nil, nil
	}
}

func sim() (*Sched, *Task) {
	if s := S; s != nil && s.cur != nil {
		return s, s.cur
	}
	return nil, nil
}

// Lock acquires the write lock.
func (m *RWMutex) Lock() {
	s, t := sim()
	if s == nil {
		m.real.Lock()
		return
	}
	m.adopt(s)
	s.yield("Lock " + m.name())
	if !m.canLock() {
		m.pending++
		s.BlockedRW++
		t.blocked, t.wantW = m, true
		for !m.canLock() {
			s.yield("blocked Lock " + m.name())
		}
		t.blocked = nil
		m.pending--
	}
	m.writer = t
	if m.relW != nil {
		join(t.vc, m.relW)
	}
	if m.relR != nil {
		join(t.vc, m.relR)
	}
	t.held = append(t.held, "W:"+m.name())
}

// Unlock releases the write lock.
func (m *RWMutex) Unlock() {
	s, t := sim()
	if s == nil {
		m.real.Unlock()
		return
	}
	m.adopt(s)
	if m.writer != t {
		panic("simrt: Unlock of RWMutex not write-locked by this task")
	}
	m.relW = append([]uint32(nil), t.vc...)
	t.vc[t.ID]++
	m.writer = nil
	t.unhold("W:" + m.name())
	s.yield("Unlock " + m.name())
}

// RLock acquires a read lock.
func (m *RWMutex) RLock() {
	s, t := sim()
	if s == nil {
		m.real.RLock()
		return
	}
	m.adopt(s)
	s.yield("RLock " + m.name())
	if !m.canRLock(t) {
		s.BlockedRW++
		t.blocked, t.wantW = m, false
		for !m.canRLock(t) {
			s.yield("blocked RLock " + m.name())
		}
		t.blocked = nil
	}
	m.readers = append(m.readers, t)
	if m.relW != nil {
		join(t.vc, m.relW)
	}
	t.held = append(t.held, "R:"+m.name())
}

// RUnlock releases a read lock.
func (m *RWMutex) RUnlock() {
	s, t := sim()
	if s == nil {
		m.real.RUnlock()
		return
	}
	m.adopt(s)
	idx := -1
	for i, r := range m.readers {
		if r == t {
			idx = i
		}
	}
	if idx < 0 {
		panic("simrt: RUnlock of RWMutex not read-locked by this task")
	}
	m.readers = append(m.readers[:idx], m.readers[idx+1:]...)
	if m.relR == nil {
		m.relR = make([]uint32, len(t.vc))
	}
	join(m.relR, t.vc)
	t.vc[t.ID]++
	t.unhold("R:" + m.name())
	s.yield("RUnlock " + m.name())
}

func (t *Task) unhold(h string) {
	for i := len(t.held) - 1; i >= 0; i-- {
		if t.held[i] == h {
			t.held = append(t.held[:i], t.held[i+1:]...)
			return
		}
	}
}

// Once is the shim for sync.Once: the first caller runs f, later callers wait until it has returned
// (and are ordered after it).
type Once struct {
	real sync.Once
	mu   RWMutex
	done bool
}

// Do runs f once.
func (o *Once) Do(f func()) {
	if s, _ := sim(); s == nil {
		o.real.Do(f)
		return
	}
	o.mu.Lock()
	defer o.mu.Unlock()
	if !o.done {
		f()
		o.done = true
	}
}

// Pool is the shim for sync.Pool: a deterministic LIFO free list; Put happens-before the Get that
// returns the item. Outside a simulation it is a real sync.Pool.
type Pool struct {
	New   func() interface{}
	real  sync.Pool
	owner *Sched
	items []poolItem
}

type poolItem struct {
	v  interface{}
	vc []uint32
}

// Get takes an item from the pool or makes a new one.
func (p *Pool) Get() interface{} {
	s, t := sim()
	if s == nil {
		if v := p.real.Get(); v != nil {
			return v
		}
		if p.New != nil {
			return p.New()
		}
		return nil
	}
	s.yield("Pool.Get")
	if p.owner != s {
		// items pooled during an earlier run keep their values but not that run's clocks
		p.owner = s
		for i := range p.items {
			p.items[i].vc = nil
		}
	}
	if n := len(p.items); n > 0 {
		it := p.items[n-1]
		p.items = p.items[:n-1]
		if it.vc != nil {
			join(t.vc, it.vc)
		}
		return it.v
	}
	if p.New != nil {
		return p.New()
	}
	return nil
}

// Put returns an item to the pool.
func (p *Pool) Put(v interface{}) {
	s, t := sim()
	if s == nil {
		p.real.Put(v)
		return
	}
	if p.owner != s {
		p.owner = s
		for i := range p.items {
			p.items[i].vc = nil
		}
	}
	p.items = append(p.items, poolItem{v, append([]uint32(nil), t.vc...)})
	t.vc[t.ID]++
	s.yield("Pool.Put")
}

// ChanOp is placed in front of a non-blocking select on a real channel: a yield point plus a conservative
// two-way synchronisation edge on the channel (like a lock handed over at every operation).
func ChanOp(ch interface{}, site string) {
	s, t := sim()
	if s == nil {
		return
	}
	v := reflect.ValueOf(ch)
	if v.Kind() != reflect.Chan || v.IsNil() {
		return
	}
	s.yield("chan " + site)
	a := s.atom(v.Pointer())
	if a.vc != nil {
		join(t.vc, a.vc)
	} else {
		a.vc = make([]uint32, len(t.vc))
	}
	join(a.vc, t.vc)
	t.vc[t.ID]++
}
