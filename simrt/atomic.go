package simrt

import (
	"sync/atomic"
	"unsafe"
)

// Shims for sync/atomic. Every operation is a yield point and a synchronisation
// edge on its address (store/RMW release, load/RMW acquire), so atomics never
// race with each other; a plain access to the same word still would.

type atomLoc struct{ vc []uint32 }

func (s *Sched) atom(addr uintptr) *atomLoc {
	if s.atoms == nil {
		s.atoms = map[uintptr]*atomLoc{}
	}
	a := s.atoms[addr]
	if a == nil {
		a = &atomLoc{}
		s.atoms[addr] = a
	}
	return a
}

func atomicOp(addr unsafe.Pointer, acquire, release bool, site string) {
	s, t := sim()
	if s == nil {
		return
	}
	s.yield(site)
	a := s.atom(uintptr(addr))
	if acquire && a.vc != nil {
		join(t.vc, a.vc)
	}
	if release {
		if a.vc == nil {
			a.vc = make([]uint32, len(t.vc))
		}
		join(a.vc, t.vc)
		t.vc[t.ID]++
	}
}

// LoadInt64 etc. mirror the sync/atomic functions.
func LoadInt64(p *int64) int64 {
	atomicOp(unsafe.Pointer(p), true, false, "atomic.Load")
	return atomic.LoadInt64(p)
}
func StoreInt64(p *int64, v int64) {
	atomicOp(unsafe.Pointer(p), false, true, "atomic.Store")
	atomic.StoreInt64(p, v)
}
func AddInt64(p *int64, d int64) int64 {
	atomicOp(unsafe.Pointer(p), true, true, "atomic.Add")
	return atomic.AddInt64(p, d)
}
func SwapInt64(p *int64, v int64) int64 {
	atomicOp(unsafe.Pointer(p), true, true, "atomic.Swap")
	return atomic.SwapInt64(p, v)
}
func CompareAndSwapInt64(p *int64, o, n int64) bool {
	atomicOp(unsafe.Pointer(p), true, true, "atomic.CAS")
	return atomic.CompareAndSwapInt64(p, o, n)
}
func LoadInt32(p *int32) int32 {
	atomicOp(unsafe.Pointer(p), true, false, "atomic.Load")
	return atomic.LoadInt32(p)
}
func StoreInt32(p *int32, v int32) {
	atomicOp(unsafe.Pointer(p), false, true, "atomic.Store")
	atomic.StoreInt32(p, v)
}
func AddInt32(p *int32, d int32) int32 {
	atomicOp(unsafe.Pointer(p), true, true, "atomic.Add")
	return atomic.AddInt32(p, d)
}
func SwapInt32(p *int32, v int32) int32 {
	atomicOp(unsafe.Pointer(p), true, true, "atomic.Swap")
	return atomic.SwapInt32(p, v)
}
func CompareAndSwapInt32(p *int32, o, n int32) bool {
	atomicOp(unsafe.Pointer(p), true, true, "atomic.CAS")
	return atomic.CompareAndSwapInt32(p, o, n)
}
func LoadUint64(p *uint64) uint64 {
	atomicOp(unsafe.Pointer(p), true, false, "atomic.Load")
	return atomic.LoadUint64(p)
}
func StoreUint64(p *uint64, v uint64) {
	atomicOp(unsafe.Pointer(p), false, true, "atomic.Store")
	atomic.StoreUint64(p, v)
}
func AddUint64(p *uint64, d uint64) uint64 {
	atomicOp(unsafe.Pointer(p), true, true, "atomic.Add")
	return atomic.AddUint64(p, d)
}
func SwapUint64(p *uint64, v uint64) uint64 {
	atomicOp(unsafe.Pointer(p), true, true, "atomic.Swap")
	return atomic.SwapUint64(p, v)
}
func CompareAndSwapUint64(p *uint64, o, n uint64) bool {
	atomicOp(unsafe.Pointer(p), true, true, "atomic.CAS")
	return atomic.CompareAndSwapUint64(p, o, n)
}
func LoadUint32(p *uint32) uint32 {
	atomicOp(unsafe.Pointer(p), true, false, "atomic.Load")
	return atomic.LoadUint32(p)
}
func StoreUint32(p *uint32, v uint32) {
	atomicOp(unsafe.Pointer(p), false, true, "atomic.Store")
	atomic.StoreUint32(p, v)
}
func AddUint32(p *uint32, d uint32) uint32 {
	atomicOp(unsafe.Pointer(p), true, true, "atomic.Add")
	return atomic.AddUint32(p, d)
}
func SwapUint32(p *uint32, v uint32) uint32 {
	atomicOp(unsafe.Pointer(p), true, true, "atomic.Swap")
	return atomic.SwapUint32(p, v)
}
func CompareAndSwapUint32(p *uint32, o, n uint32) bool {
	atomicOp(unsafe.Pointer(p), true, true, "atomic.CAS")
	return atomic.CompareAndSwapUint32(p, o, n)
}
func LoadPointer(p *unsafe.Pointer) unsafe.Pointer {
	atomicOp(unsafe.Pointer(p), true, false, "atomic.Load")
	return atomic.LoadPointer(p)
}
func StorePointer(p *unsafe.Pointer, v unsafe.Pointer) {
	atomicOp(unsafe.Pointer(p), false, true, "atomic.Store")
	atomic.StorePointer(p, v)
}

// Value mirrors atomic.Value.
type Value struct{ v atomic.Value }

func (x *Value) Load() interface{} {
	atomicOp(unsafe.Pointer(x), true, false, "atomic.Value.Load")
	return x.v.Load()
}
func (x *Value) Store(v interface{}) {
	atomicOp(unsafe.Pointer(x), false, true, "atomic.Value.Store")
	x.v.Store(v)
}

// Int64 / Int32 / Uint64 / Uint32 / Bool mirror the typed atomics.
type Int64 struct{ v int64 }

func (x *Int64) Load() int64                    { return LoadInt64(&x.v) }
func (x *Int64) Store(v int64)                  { StoreInt64(&x.v, v) }
func (x *Int64) Add(d int64) int64              { return AddInt64(&x.v, d) }
func (x *Int64) Swap(v int64) int64             { return SwapInt64(&x.v, v) }
func (x *Int64) CompareAndSwap(o, n int64) bool { return CompareAndSwapInt64(&x.v, o, n) }

type Int32 struct{ v int32 }

func (x *Int32) Load() int32                    { return LoadInt32(&x.v) }
func (x *Int32) Store(v int32)                  { StoreInt32(&x.v, v) }
func (x *Int32) Add(d int32) int32              { return AddInt32(&x.v, d) }
func (x *Int32) Swap(v int32) int32             { return SwapInt32(&x.v, v) }
func (x *Int32) CompareAndSwap(o, n int32) bool { return CompareAndSwapInt32(&x.v, o, n) }

type Uint64 struct{ v uint64 }

func (x *Uint64) Load() uint64                    { return LoadUint64(&x.v) }
func (x *Uint64) Store(v uint64)                  { StoreUint64(&x.v, v) }
func (x *Uint64) Add(d uint64) uint64             { return AddUint64(&x.v, d) }
func (x *Uint64) Swap(v uint64) uint64            { return SwapUint64(&x.v, v) }
func (x *Uint64) CompareAndSwap(o, n uint64) bool { return CompareAndSwapUint64(&x.v, o, n) }

type Uint32 struct{ v uint32 }

func (x *Uint32) Load() uint32                    { return LoadUint32(&x.v) }
func (x *Uint32) Store(v uint32)                  { StoreUint32(&x.v, v) }
func (x *Uint32) Add(d uint32) uint32             { return AddUint32(&x.v, d) }
func (x *Uint32) Swap(v uint32) uint32            { return SwapUint32(&x.v, v) }
func (x *Uint32) CompareAndSwap(o, n uint32) bool { return CompareAndSwapUint32(&x.v, o, n) }

type Bool struct{ v uint32 }

func (x *Bool) Load() bool { return LoadUint32(&x.v) != 0 }
func (x *Bool) Store(v bool) {
	if v {
		StoreUint32(&x.v, 1)
	} else {
		StoreUint32(&x.v, 0)
	}
}
