module verif/simrt

go 1.17
