#!/usr/bin/env python3
"""keep_seed.py <id> <srcdir> <PROP> <demo pkg dir> <caught:yes|no|...> <needs...>  — files a confirmed seeded change under /verif/seeded/<id>/"""
import sys, os, shutil, json, glob
sid, src, prop, pkg, caught = sys.argv[1:6]
needs = " ".join(sys.argv[6:])
d = f"/verif/seeded/{sid}"
os.makedirs(d, exist_ok=True)
shutil.copy(f"{src}/patch.diff", d)
for f in glob.glob(f"{src}/*_test.go") + glob.glob(f"{src}/notes.md"):
    shutil.copy(f, d + "/" + os.path.basename(f).replace("_test.go", "_test.go.txt"))
meta = {
 "id": sid, "property": prop, "origin": "independent sub-agent given only the property text and a scratch worktree",
 "needs_to_manifest": needs,
 "demo": {"file": "demo_test.go.txt (rename to *_test.go)", "copy_into": pkg},
 "confirmed_by_me": {"how": "tools/confirm_seed.sh in a scratch worktree: existing suite passes with the patch, demo fails with the patch, demo passes on the pristine tree", "result": "CONFIRMED"},
 "detection": {"cmd": f"git -C /repo apply patch.diff && bin/check {prop} quick; git -C /repo checkout -- .", "caught_by_quick": caught},
}
json.dump(meta, open(d + "/meta.json", "w"), indent=1)
print("kept", d)
