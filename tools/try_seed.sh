#!/bin/bash
# usage: try_seed.sh <patch.diff> <PROP> [tier]
# Applies the patch to a scratch copy of /repo's working tree (never to /repo), runs the check against the copy, removes it.
P=$(readlink -f "$1"); PROP=$2; TIER=${3:-quick}
W=$(mktemp -d /var/tmp/verifseed.XXXXXX)
rsync -a --exclude .git /repo/ "$W/" || exit 9
(cd "$W" && patch -p1 -s --no-backup-if-mismatch < "$P") || { echo "PATCH DOES NOT APPLY"; rm -rf "$W"; exit 9; }
cd /verif && VERIF_REPO="$W" VERIF_NO_EVIDENCE=1 VERIF_REPLAY_DIR="$W.replays" bin/check $PROP $TIER 2>&1 | grep -E "VIOLATION|KNOWN|TROUBLE|^  C|property=" | head -12
rc=${PIPESTATUS[0]}
rm -rf "$W" "$W.replays"
echo "check_exit=$rc"
