#!/bin/bash
# usage: try_seed.sh <patch.diff> <PROP> [tier]  — applies the patch to /repo, runs the check, reverts.
P=$1; PROP=$2; TIER=${3:-quick}
cd /repo && git apply "$P" || { echo "PATCH DOES NOT APPLY to /repo"; exit 9; }
cd /verif && bin/check $PROP $TIER 2>&1 | grep -E "VIOLATION|KNOWN|TROUBLE|^  C|property=" | head -12
rc=${PIPESTATUS[0]}
git -C /repo checkout -q -- . && git -C /repo clean -fdq
echo "check_exit=$rc"
