#!/usr/bin/env python3
"""Regenerates /verif/MANIFEST.json from the table below (kept in one place so it stays valid)."""
import json, os, sys
V = os.path.dirname(os.path.dirname(os.path.abspath(__file__)))
BASE_CMD = json.load(open('/root/.vp/BASELINE.json'))['cmd'] if os.path.exists('/root/.vp/BASELINE.json') else "cd /repo && go test -vet=off -count=1 ./..."

claimed = {
 "C01": dict(cat="exploration", tech="deterministic simulation: seeded delivery schedules (fragmentation, zero-length reads, EOF placement, tails) of byte streams into the real decoders, checked against an independent reference codec with exact byte accounting",
   text="Seeded exploration of reader delivery schedules over reference-encoded transactions (single, concatenated stream, block list; standard and extended). Decides the stream clauses of the property (exact consumption, arrival-format re-serialisation, same result under every delivery plan); the value-level round trip is sampled workload with boundary bias, not enumerated.",
   note="Trusted: the ~150-line reference codec written from the wire-format description, std-lib sha256. Shapes bounded (scripts <= 270 kB, counts <= 65 536 rarely). A clean batch is evidence, not proof.", ref="DESIGN.md §3 C01"),
 "C04": dict(cat="exploration", tech="deterministic simulation: seeded multi-party signing/tamper/transit histories over one shared draft tx with failing-signer fault injection; commitment-set reference model checked after every event through the real interpreter",
   text="Seeded exploration of histories (add/remove/move inputs and outputs, sign with each of 12 hash types through FillInput/FillAllInputs, transit through the wire formats, tamper faults, signer failures); after every event each library-signed input must verify iff the projection it committed to is unchanged.",
   note="Assumes SHA-256d collision-freeness and ECDSA unforgeability for the '=> invalid' direction. Only P2PKH / P2PKH-inscription spends; does not decide that digests equal the specification (C02/C03).", ref="DESIGN.md §3 C04"),
 "C09": dict(cat="fault_enumeration", tech="deterministic simulation with fault injection on the reader seam: complete enumeration of truncation offsets and length-field inflations per base stream, seeded bit flips / transient reader errors / delivery plans; totality, consumed<=supplied and allocation-meter oracles",
   text="Per base stream every truncation offset and every (length field x inflated value) is injected; flips, reader errors and delivery plans are seeded. Oracles: no panic / process death / library call that does not return, reported bytes <= bytes handed out, injected error surfaces, allocation <= 8 MiB + 64 x supplied.",
   note="Base streams are sampled; the allocation bound's constants are deliberately loose; allocation failure itself cannot be injected in Go.", ref="DESIGN.md §3 C09"),
 "C12": dict(cat="fault_enumeration", tech="deterministic simulation: scripted supplier (callback + context) with complete enumeration of exhaustion/error/cancellation positions per seeded base scenario; lock-step executable reference model of the funding loop over the recorded call history",
   text="Per seeded base scenario (starting tx, fee quote, supplier history) every fault position is enumerated: exhaustion, unrelated error and context cancellation at each call index. Each execution of the real Fund is checked call by call against a reference funding model (deficit passed, call discipline, terminal result, input fidelity, outputs untouched, bounded calls).",
   note="'Estimated fee' is computed independently: reference-codec size with the documented 107-byte dummy unlocking script per unsigned P2PKH input, exact integer floor arithmetic; base scenarios are sampled; inputs on error paths are unconstrained.", ref="DESIGN.md §3 C12"),
 "C18": dict(cat="exploration", tech="deterministic simulation: source-instrumented scratch copy run under a seeded cooperative scheduler with simulated RWMutex, Once, Pool, atomics, timers and clock; vector-clock race detection, porcupine linearizability against a sequential fee-quote model, interleaved-vs-solo equality for one shared engine",
   text="Seeded search over interleavings of caller tasks on shared FeeQuote/FeeQuotes objects (every lock op and guarded access is a yield point, clock jumps injected) and of concurrent Execute calls on one engine; data races by vector clocks, linearizability by porcupine, deadlock and solo-equality checks.",
   note="Races are detected on the instrumented shared types (incl. the types of package-level struct variables that are field-written or address-taken after init) and written package variables of packages bt and interpreter only; dependencies run atomically; sampling, not enumeration.", ref="DESIGN.md §3 C18"),
 "C19": dict(cat="exploration", tech="deterministic simulation: hostile observer party behind the Debugger seam (records, then scribbles snapshots at seeded or all callbacks); lifecycle automaton over the callback history and three-way run equality (none / recording / scribbling / fan-out)",
   text="For corpus and seeded programs each execution is run with no debugger, a recording debugger, a scribbling debugger (exhaustive scribble-all and seeded subsets) and through the debug fan-out; verdicts must be identical, the callback history must satisfy the lifecycle automaton and snapshot-consistency clauses, and recorded histories must be identical with and without scribbling.",
   note="Programs are sampled (corpus + generated); only stack data inside snapshots is scribbled, as the property states; opcode semantics beyond pure data movement are not modelled.", ref="DESIGN.md §3 C19"),
}
na = {
 "C02": "pure function of (tx, index, flag) with no seam: no schedule, clock, fault or counter-party can influence the digest; deciding it needs a reference digest over generated inputs, which is not simulation",
 "C03": "pure function (legacy sighash); its only state is a private clone, nothing to interleave or fault",
 "C05": "interpreter-vs-specification equivalence over programs is differential testing of one deterministic single-threaded step function; no party, clock, schedule or fault involved",
 "C06": "acceptance of exactly the valid ordered signatures is a pure function of (scripts, tx, flags); needs enumeration of key/signature arrangements, not histories",
 "C07": "totality of a deterministic single-threaded evaluator is a for-all over input bytes (fuzzing); no fault or schedule can make it hang or panic that the bare input does not",
 "C08": "caller-buffer immutability and stack-item aliasing are sequential pre/post relations of one execution; nothing is scheduled or faulted",
 "C10": "change arithmetic is a pure function of (tx, quote, destination); the concurrent use of the quote is C18's subject",
 "C11": "size/fee identities are arithmetic over inputs and keys; nothing temporal",
 "C13": "script codecs are pure byte-string functions with no reader/writer seam (they take and return slices)",
 "C14": "script inspection is a set of pure predicates over a byte string",
 "C15": "address derivation/validation is pure string/byte computation",
 "C16": "JSON exactness over all satoshi amounts is pure numeric round-tripping; no schedule or fault can decide it",
 "C17": "BIP276 encode/decode is a pure string function over 65 025 field pairs: enumeration, not simulation",
 "C20": "each ordinals flow is one synchronous call that is a pure function of its arguments; no order, delay, loss or failure between parties can change what one call returns",
}
have = sys.argv[1:] or sorted(claimed)
checks = []
for pid in sorted(claimed):
    if pid not in have: continue
    c = claimed[pid]
    checks.append({
      "property_id": pid,
      "quick_cmd": f"bin/check {pid} quick",
      "thorough_cmd": f"bin/check {pid} thorough",
      "evidence_file": f"/verif/evidence/{pid}.json",
      "replay_cmd_template": "bin/check replay {path}",
      "engine": "verifsim",
      "level_claimed": {"category": c["cat"], "text": c["text"], "design_ref": c["ref"]},
      "level_note": c["note"],
      "technique": c["tech"],
    })
nal = [{"property_id": k, "reason": v} for k, v in sorted(na.items())]
for pid in sorted(claimed):
    if pid not in have:
        nal.append({"property_id": pid, "reason": "check not built yet in this revision (planned: deterministic simulation, see DESIGN.md §3)"})
m = {
 "version": 1,
 "setup_cmd": "bin/check setup",
 "hooks": {
   "guard": "verif",
   "enable": "no hooks are committed in /repo: for C18 the check copies /repo's working tree to a scratch directory and instruments the copy (sync, time.Now, guarded field accesses, interpreter function entries) at check time; all other worlds link the untouched working tree through a go.mod replace directive",
   "baseline_off_cmd": BASE_CMD,
   "source_commits": [],
   "add_only": True,
 },
 "engines": [{"name": "verifsim", "path": "/verif/sim", "serves_properties": [c["property_id"] for c in checks],
              "kind_free_text": "deterministic simulation kernel (choice tape from one PRNG, seeded cooperative scheduler, simulated stream/clock/mutexes, fault injection, shrinker, replay) + one world per property"}],
 "checks": checks,
 "not_applicable": sorted(nal, key=lambda x: x["property_id"]),
 "notes": "Exit codes: 0 held, 1 VIOLATION line printed (incl. a library call that hangs or kills the worker, confirmed in a fresh process), 2 build/instrumentation trouble or an unconfirmed worker death. VERIF_SEED selects the seed (default 1). Known findings: /verif/known_findings.json (none open; four fixed). Sensitivity: /verif/seeded (276 independently seeded defects, MATRIX.md), false-alarm self-test: /verif/benign (144 correct refactors, MATRIX.md).",
}
json.dump(m, open(os.path.join(V, "MANIFEST.json"), "w"), indent=1)
print("wrote MANIFEST.json with checks:", [c["property_id"] for c in checks])
