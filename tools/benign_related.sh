#!/bin/bash
# False-alarm self-test: every kept behaviour-preserving refactor (benign/<id>/patch.diff) is applied to a scratch
# copy of /repo and ALL six quick checks are run against it; every one must stay silent. Writes benign/MATRIX.md.
# Built from a snapshot of /verif taken at start; JOBS changes in parallel.
# (this copy is meant to be run with RELATED=1)
# ONLY='*-h?' restricts the run to matching change ids and writes benign/MATRIX.part.md instead.
# RELATED=1: each change is run only against its own property and the ones that share code with it (C01<->C09,
# C04/C18/C19 share the interpreter, C12<->C18 share the fee quote); the other columns show "-".
JOBS=${JOBS:-2}
SNAP=$(mktemp -d /var/tmp/verifsnap.XXXXXX)
trap 'rm -rf "$SNAP"' EXIT
rsync -a --exclude .git --exclude .build --exclude replays --exclude evidence /verif/ "$SNAP/verif/"
cd "$SNAP/verif" || exit 2
one() {
  d=$1; id=$(basename $d)
  W=$(mktemp -d /var/tmp/verifbenign.XXXXXX)
  rsync -a --exclude .git /repo/ "$W/"
  if ! (cd "$W" && patch -p1 -s --no-backup-if-mismatch < "$SNAP/verif/$d/patch.diff"); then echo "| $id | PATCH DOES NOT APPLY |"; rm -rf "$W"; return; fi
  row="| $id |"
  for p in C01 C04 C09 C12 C18 C19; do
    if [ -n "$RELATED" ]; then
      case "$id" in
        c01-*) rel="C01 C09" ;; c09-*) rel="C09 C01" ;; c04-*) rel="C04 C18 C19" ;; c12-*) rel="C12 C18" ;;
        c18-*) rel="C18 C12 C19 C04" ;; c19-*) rel="C19 C18 C04" ;; *) rel="C01 C04 C09 C12 C18 C19" ;;
      esac
      case " $rel " in *" $p "*) ;; *) row="$row - |"; continue ;; esac
    fi
    VERIF_REPO="$W" VERIF_NO_EVIDENCE=1 VERIF_REPLAY_DIR="$W.replays" VERIF_WORKERS=8 "$SNAP/verif/bin/check" $p quick >/dev/null 2>&1
    rc=$?
    if [ $rc -eq 0 ]; then row="$row silent |"; else row="$row **ALARM** (exit $rc) |"; fi
  done
  rm -rf "$W" "$W.replays"
  echo "$row"
}
export -f one; export SNAP RELATED
OUT=/verif/benign/MATRIX.md; [ -n "$ONLY" ] && OUT=/verif/benign/MATRIX.part.md
ls -d benign/${ONLY:-*}/ | xargs -P "$JOBS" -I{} bash -c 'one {}' | sort > "$SNAP/rows"
{
  echo "| benign change | C01 | C04 | C09 | C12 | C18 | C19 |"
  echo "|---|---|---|---|---|---|---|"
  cat "$SNAP/rows"
} > "$OUT"
echo "benign matrix done: $(wc -l < "$SNAP/rows") changes, alarms: $(grep -c ALARM "$OUT")"
