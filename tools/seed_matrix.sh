#!/bin/bash
# Sensitivity self-test: every kept seeded change is applied to a scratch copy of /repo's working tree and its
# property's quick check is run against that copy; writes seeded/MATRIX.md. The checks are built from a SNAPSHOT
# of /verif's sources taken at start, so editing /verif meanwhile cannot disturb it. Up to $JOBS seeds in parallel.
JOBS=${JOBS:-2}
SNAP=$(mktemp -d /var/tmp/verifsnap.XXXXXX)
trap 'rm -rf "$SNAP"' EXIT
rsync -a --exclude .git --exclude .build --exclude replays --exclude evidence /verif/ "$SNAP/verif/"
cd "$SNAP/verif" || exit 2
one() {
  d=$1; id=$(basename $d); prop=$(python3 -c "import json;print(json.load(open('$d/meta.json'))['property'])")
  W=$(mktemp -d /var/tmp/verifseed.XXXXXX)
  rsync -a --exclude .git /repo/ "$W/"
  if ! (cd "$W" && patch -p1 -s --no-backup-if-mismatch < "$SNAP/verif/$d/patch.diff"); then echo "| $id | $prop | **PATCH DOES NOT APPLY** | |"; rm -rf "$W"; return; fi
  res=$(VERIF_REPO="$W" VERIF_NO_EVIDENCE=1 VERIF_REPLAY_DIR="$W.replays" VERIF_WORKERS=8 "$SNAP/verif/bin/check" $prop quick 2>&1)
  rc=$?
  cls=$(echo "$res" | grep -m1 -E "^  C[0-9]+/" | sed -e 's/^  //' -e 's/: .*//' | cut -c1-110)
  rm -rf "$W" "$W.replays"
  if [ "$rc" = "1" ]; then verdict="caught"; else verdict="**NOT CAUGHT (exit $rc)**"; fi
  echo "| $id | $prop | $verdict | \`$cls\` |"
}
export -f one; export SNAP
ls -d seeded/*/ | xargs -P "$JOBS" -I{} bash -c 'one {}' | sort > "$SNAP/rows"
{
  echo "| seeded change | property | quick check | first violation class reported |"
  echo "|---|---|---|---|"
  cat "$SNAP/rows"
} > /verif/seeded/MATRIX.md
n=$(grep -c "NOT CAUGHT\|DOES NOT APPLY" /verif/seeded/MATRIX.md)
echo "seed matrix done: $(wc -l < "$SNAP/rows") seeds, not caught: $n"
grep "NOT CAUGHT\|DOES NOT APPLY" /verif/seeded/MATRIX.md | cut -c1-100
exit 0
