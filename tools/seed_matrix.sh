#!/bin/bash
# Runs every kept seeded change against its property's quick check (on scratch copies) and writes seeded/MATRIX.md.
cd /verif
out=seeded/MATRIX.md
echo "| seeded change | property | quick check | first violation class reported |" > $out.tmp
echo "|---|---|---|---|" >> $out.tmp
miss=0
for d in seeded/*/; do
  id=$(basename $d); prop=$(python3 -c "import json;print(json.load(open('$d/meta.json'))['property'])")
  res=$(tools/try_seed.sh $d/patch.diff $prop quick)
  rc=$(echo "$res" | sed -n 's/^check_exit=//p')
  cls=$(echo "$res" | grep -m1 -E "^  C[0-9]+/" | sed -e 's/^  //' -e 's/: .*//' | cut -c1-110)
  if [ "$rc" = "1" ]; then verdict="caught"; else verdict="**MISSED (exit $rc)**"; miss=$((miss+1)); fi
  echo "| $id | $prop | $verdict | \`$cls\` |" >> $out.tmp
done
mv $out.tmp $out
echo "seed matrix done: missed=$miss"
