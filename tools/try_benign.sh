#!/bin/bash
# usage: try_benign.sh <patch.diff> [PROPS...]  — a behaviour-preserving change: every check must stay silent (exit 0).
P=$(readlink -f "$1"); shift; PROPS=${@:-C01 C04 C09 C12 C18 C19}
W=$(mktemp -d /var/tmp/verifbenign.XXXXXX)
rsync -a --exclude .git /repo/ "$W/" || exit 9
(cd "$W" && patch -p1 -s --no-backup-if-mismatch < "$P") || { echo "PATCH DOES NOT APPLY"; rm -rf "$W"; exit 9; }
(cd "$W" && GOFLAGS=-mod=mod GOPROXY=off GOSUMDB=off GOTOOLCHAIN=local go build ./... 2>&1 | head -3)
bad=0
for p in $PROPS; do
  out=$(cd /verif && VERIF_REPO="$W" VERIF_NO_EVIDENCE=1 VERIF_REPLAY_DIR="$W.replays" bin/check $p quick 2>&1); rc=$?
  if [ $rc -ne 0 ]; then bad=1; echo "ALARM $p exit=$rc"; echo "$out" | grep -E "^  C|VIOLATION|TROUBLE|unsupported" | head -4 | cut -c1-600; else echo "silent $p"; fi
done
rm -rf "$W" "$W.replays"
exit $bad
