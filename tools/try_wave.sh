#!/bin/bash
# usage: try_wave.sh <dir>...   each dir holds patch.diff and notes.md (first line: the id, "cNN-...").
# Runs every change against its property's quick check on a scratch copy of /repo, from a SNAPSHOT of /verif taken at
# start (so /verif may be edited meanwhile). JOBS changes in parallel (default 3).
JOBS=${JOBS:-3}
SNAP=$(mktemp -d /var/tmp/verifsnap.XXXXXX)
trap 'rm -rf "$SNAP"' EXIT
rsync -a --exclude .git --exclude .build --exclude replays --exclude evidence /verif/ "$SNAP/verif/"
(cd "$SNAP/verif" && bin/check setup >/dev/null 2>&1) || { echo "snapshot does not build"; exit 2; }
one() {
  O=$1; id=$(head -1 $O/notes.md | tr -d '`# '); prop=$(echo $id | cut -c1-3 | tr a-z A-Z)
  W=$(mktemp -d /var/tmp/verifseed.XXXXXX)
  rsync -a --exclude .git /repo/ "$W/"
  if ! (cd "$W" && patch -p1 -s --no-backup-if-mismatch < "$O/patch.diff"); then echo "$id :: PATCH DOES NOT APPLY"; rm -rf "$W"; return; fi
  res=$(cd "$SNAP/verif" && VERIF_REPO="$W" VERIF_NO_EVIDENCE=1 VERIF_REPLAY_DIR="$W.replays" VERIF_WORKERS=8 bin/check $prop ${TIER:-quick} 2>&1)
  rc=$?
  rm -rf "$W" "$W.replays"
  echo "$id :: exit=$rc $(echo "$res" | grep -E "^  C|TROUBLE" | cut -c1-220 | head -2 | tr '\n' ' ')"
}
export -f one; export SNAP
printf '%s\n' "$@" | xargs -P "$JOBS" -I{} bash -c 'one {}'
