#!/bin/bash
# False-alarm self-test: every kept behaviour-preserving refactor (benign/<id>/patch.diff) is applied to a scratch
# copy of /repo and ALL six quick checks are run against it; every one must stay silent. Writes benign/MATRIX.md.
cd /verif
out=benign/MATRIX.md
{
echo "| benign change | C01 | C04 | C09 | C12 | C18 | C19 |"
echo "|---|---|---|---|---|---|---|"
} > $out.tmp
bad=0
for d in benign/*/; do
  id=$(basename $d)
  res=$(tools/try_benign.sh $d/patch.diff)
  row="| $id |"
  for p in C01 C04 C09 C12 C18 C19; do
    if echo "$res" | grep -q "silent $p"; then row="$row silent |"; else row="$row **ALARM** |"; bad=$((bad+1)); fi
  done
  echo "$row" >> $out.tmp
done
mv $out.tmp $out
echo "benign matrix done: alarms=$bad"
