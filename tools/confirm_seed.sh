#!/bin/bash
# usage: confirm_seed.sh <worktree> <seed-dir> [pkgdir-relative]
# Confirms in a scratch worktree: suite passes with patch, demo fails with patch, demo passes without.
export GOFLAGS=-mod=mod GOPROXY=off GOSUMDB=off GOTOOLCHAIN=local
W=$1; O=$2; DIR=${3:-.}
D=$(ls $O/*_test.go 2>/dev/null | head -1)
[ -z "$D" ] && { echo "no demo test in $O"; exit 3; }
pkg=$(sed -n 's/^package \([a-z_]*\).*/\1/p' $D | head -1)
cd $W && git checkout -q -- . && git clean -fdq
git apply $O/patch.diff || { echo "PATCH DOES NOT APPLY"; exit 9; }
go build ./... >/dev/null 2>&1 || { echo "BUILD FAILS"; git checkout -q -- .; exit 8; }
go test -vet=off -count=1 ./... >${LOGD:-/tmp/wt}/suite.log 2>&1; s=$?
cp $D $W/$DIR/zz_seed_demo_test.go
(cd $W/$DIR && go test $RACEFLAG -vet=off -count=1 -run "${RUNPAT:-Demo|demo|Seed|C[0-9][0-9]|Shared|Concurrent}" . >${LOGD:-/tmp/wt}/demo_p.log 2>&1); p=$?
rm -f $W/$DIR/zz_seed_demo_test.go; git checkout -q -- . && git clean -fdq
cp $D $W/$DIR/zz_seed_demo_test.go
(cd $W/$DIR && go test $RACEFLAG -vet=off -count=1 -run "${RUNPAT:-Demo|demo|Seed|C[0-9][0-9]|Shared|Concurrent}" . >${LOGD:-/tmp/wt}/demo_c.log 2>&1); c=$?
rm -f $W/$DIR/zz_seed_demo_test.go; git checkout -q -- . && git clean -fdq
echo "suite_with_patch=$s demo_with_patch=$p demo_pristine=$c"
[ $s -eq 0 ] && [ $p -ne 0 ] && [ $c -eq 0 ] && echo CONFIRMED || { echo NOT-CONFIRMED; grep -E "^(---|FAIL|ok|panic)" ${LOGD:-/tmp/wt}/demo_c.log | head; }
