#!/bin/bash
# Runs every thorough tier on /repo's working tree, one after the other, and keeps a copy of each evidence file
# under evidence/thorough/ (evidence/<id>.json is rewritten by the next quick run). Log: evidence/thorough/thorough.log.
cd /verif || exit 2
mkdir -p evidence/thorough
: > evidence/thorough/thorough.log
rc=0
for p in C01 C09 C12 C04 C18 C19; do
  echo "== $p thorough  $(date -u +%H:%M:%S)" >> evidence/thorough/thorough.log
  bin/check $p thorough >> evidence/thorough/thorough.log 2>&1; r=$?
  echo "== $p exit=$r  $(date -u +%H:%M:%S)" >> evidence/thorough/thorough.log
  [ $r -ne 0 ] && rc=$r
  cp evidence/$p.json evidence/thorough/$p.json 2>/dev/null
done
exit $rc
