// Command instrument rewrites a scratch copy of go-bt so that the simulator
// sees every sync operation, every access to state shared between caller
// threads, time.Now, and every function entry of the interpreter.
//
// It never touches /repo: bin/check copies the working tree first. Anything it
// does not model makes it exit 2 ("unsupported"), never silently pass.
package main

import (
	"bytes"
	"flag"
	"fmt"
	"go/ast"
	"go/format"
	"go/importer"
	"go/parser"
	"go/token"
	"go/types"
	"os"
	"path/filepath"
	"sort"
	"strconv"
	"strings"
)

const modPath = "github.com/libsv/go-bt/v2"

type pkgInfo struct {
	dir   string
	path  string
	files []*ast.File
	names []string
	info  *types.Info
	pkg   *types.Package
}

var (
	fset           = token.NewFileSet()
	shared         = map[*types.TypeName]bool{}
	sharedNames    = map[string]bool{}
	writtenVars    = map[*types.Var]bool{}
	// package-level struct variables that are written through a field, or whose address is taken, outside init:
	// their types join the shared types (field-granular hooks wherever values of the type are touched)
	objVars     = map[*types.Var]bool{}
	sharedAnon  = map[*types.Struct]bool{}
	lateShared  = map[string]bool{} // qualified names of types that are shared only because of objVars
	unsupported    []string
	unhooked       []string
	allowedChanOps = map[ast.Node]bool{}
	pendingRecv    []*ast.UnaryExpr
	root           string
	stats          = map[string]int{}
)

func fail(format string, a ...interface{}) {
	fmt.Fprintf(os.Stderr, "instrument: "+format+"\n", a...)
	os.Exit(2)
}

func posStr(p token.Pos) string {
	ps := fset.Position(p)
	rel, err := filepath.Rel(root, ps.Filename)
	if err != nil {
		rel = ps.Filename
	}
	return fmt.Sprintf("%s:%d:%d", rel, ps.Line, ps.Column)
}

func load(dir, path string, imp types.Importer) *pkgInfo {
	p := &pkgInfo{dir: dir, path: path}
	ents, err := os.ReadDir(dir)
	if err != nil {
		fail("read %s: %v", dir, err)
	}
	for _, e := range ents {
		n := e.Name()
		if e.IsDir() || !strings.HasSuffix(n, ".go") || strings.HasSuffix(n, "_test.go") {
			continue
		}
		f, err := parser.ParseFile(fset, filepath.Join(dir, n), nil, 0) // comments are dropped: inserted statements have no positions and would attract them
		if err != nil {
			fail("parse %s: %v", n, err)
		}
		p.files = append(p.files, f)
		p.names = append(p.names, filepath.Join(dir, n))
	}
	p.info = &types.Info{Types: map[ast.Expr]types.TypeAndValue{}, Uses: map[*ast.Ident]types.Object{}, Defs: map[*ast.Ident]types.Object{}, Selections: map[*ast.SelectorExpr]*types.Selection{}}
	conf := types.Config{Importer: imp, Error: func(err error) {}}
	pkg, err := conf.Check(path, fset, p.files, p.info)
	if err != nil && pkg == nil {
		fail("type-check %s: %v", path, err)
	}
	p.pkg = pkg
	return p
}

func namedOf(t types.Type) *types.Named {
	for {
		switch x := t.(type) {
		case *types.Pointer:
			t = x.Elem()
		case *types.Named:
			return x
		default:
			return nil
		}
	}
}

func inModule(n *types.Named) bool {
	return n.Obj().Pkg() != nil && strings.HasPrefix(n.Obj().Pkg().Path(), modPath)
}

func isMutex(t types.Type) bool {
	n := namedOf(t)
	if n == nil || n.Obj().Pkg() == nil {
		return false
	}
	p := n.Obj().Pkg().Path()
	return (p == "sync" || p == "verif/simrt") && (n.Obj().Name() == "RWMutex" || n.Obj().Name() == "Mutex" || n.Obj().Name() == "Once" || n.Obj().Name() == "Pool")
}

// closeShared adds every module struct type reachable through fields.
func closeShared(t types.Type, seen map[types.Type]bool) {
	if seen[t] {
		return
	}
	seen[t] = true
	switch x := t.(type) {
	case *types.Pointer:
		closeShared(x.Elem(), seen)
	case *types.Slice:
		closeShared(x.Elem(), seen)
	case *types.Array:
		closeShared(x.Elem(), seen)
	case *types.Map:
		closeShared(x.Key(), seen)
		closeShared(x.Elem(), seen)
	case *types.Named:
		if !inModule(x) {
			return
		}
		if st, ok := x.Underlying().(*types.Struct); ok {
			shared[x.Obj()] = true
			for i := 0; i < st.NumFields(); i++ {
				closeShared(st.Field(i).Type(), seen)
			}
		}
	case *types.Struct:
		for i := 0; i < x.NumFields(); i++ {
			closeShared(x.Field(i).Type(), seen)
		}
	}
}

type rewriter struct {
	p        *pkgInfo
	file     *ast.File
	usedRT   bool
	writes   map[ast.Expr]bool
	mapW     map[ast.Expr]bool
	yieldFns bool
	// function literals the rewriter itself put around conditionally evaluated operands
	synthetic map[*ast.FuncLit]bool
}

func (r *rewriter) unsupported(pos token.Pos, what string) {
	unsupported = append(unsupported, fmt.Sprintf("%s at %s", what, posStr(pos)))
}

func rtCall(fn string, args ...ast.Expr) ast.Stmt {
	return &ast.ExprStmt{X: &ast.CallExpr{Fun: &ast.SelectorExpr{X: ast.NewIdent("simrt"), Sel: ast.NewIdent(fn)}, Args: args}}
}

func strLit(s string) ast.Expr { return &ast.BasicLit{Kind: token.STRING, Value: strconv.Quote(s)} }
func intLit(i int) ast.Expr    { return &ast.BasicLit{Kind: token.INT, Value: strconv.Itoa(i)} }

func stripParens(e ast.Expr) ast.Expr {
	for {
		p, ok := e.(*ast.ParenExpr)
		if !ok {
			return e
		}
		e = p.X
	}
}

func pure(e ast.Expr) bool {
	switch x := e.(type) {
	case *ast.Ident, *ast.BasicLit:
		return true
	case *ast.SelectorExpr:
		return pure(x.X)
	case *ast.StarExpr:
		return pure(x.X)
	case *ast.ParenExpr:
		return pure(x.X)
	case *ast.IndexExpr:
		return pure(x.X) && pure(x.Index)
	}
	return false
}

// markTargets records which expressions of a statement are written.
func (r *rewriter) markTargets(st ast.Stmt) {
	mark := func(e ast.Expr) {
		for {
			if p, ok := e.(*ast.ParenExpr); ok {
				e = p.X
				continue
			}
			break
		}
		switch x := e.(type) {
		case *ast.SelectorExpr, *ast.Ident:
			r.writes[x] = true
		case *ast.IndexExpr:
			if tv, ok := r.p.info.Types[x.X]; ok {
				if _, isMap := tv.Type.Underlying().(*types.Map); isMap {
					r.mapW[x.X] = true
				} else {
					r.writes[x.X] = true // element of a slice/array held in the field/var
				}
			}
		case *ast.StarExpr:
			r.writes[x] = true // *p = v
		}
	}
	switch s := st.(type) {
	case *ast.AssignStmt:
		for _, l := range s.Lhs {
			mark(l)
		}
	case *ast.IncDecStmt:
		mark(s.X)
	case *ast.RangeStmt:
		if s.Tok == token.ASSIGN {
			if s.Key != nil {
				mark(s.Key)
			}
			if s.Value != nil {
				mark(s.Value)
			}
		}
	}
}

// hooksIn returns the Acc statements for the shared accesses inside e (not descending into function literals).
func (r *rewriter) hooksIn(e ast.Node) []ast.Stmt {
	if e == nil {
		return nil
	}
	var out []ast.Stmt
	info := r.p.info
	skip := map[ast.Node]bool{}
	objDone := map[*ast.Ident]bool{}
	var visit func(n ast.Node) bool
	visit = func(n ast.Node) bool {
		if be, ok := n.(*ast.BinaryExpr); ok && (be.Op == token.LAND || be.Op == token.LOR) {
			// the right operand is evaluated only if the left one lets it: its hooks must not run before the left
			// operand has been looked at ("p != nil && p.f > 0": taking &p.f first would crash the instrumented
			// program where the original is fine). They move into a function literal around the right operand.
			ast.Inspect(be.X, visit)
			if _, already := be.Y.(*ast.CallExpr); !already || !r.isSynthetic(be.Y) {
				hy := r.hooksIn(be.Y)
				if len(hy) > 0 {
					if tv, ok := info.Types[be.Y]; ok && types.Identical(tv.Type.Underlying(), types.Typ[types.Bool]) && (types.Identical(tv.Type, types.Typ[types.Bool]) || types.Identical(tv.Type, types.Typ[types.UntypedBool])) {
						fl := &ast.FuncLit{Type: &ast.FuncType{Params: &ast.FieldList{}, Results: &ast.FieldList{List: []*ast.Field{{Type: ast.NewIdent("bool")}}}},
							Body: &ast.BlockStmt{List: append(hy, &ast.ReturnStmt{Results: []ast.Expr{be.Y}})}}
						r.synthetic[fl] = true
						stats["guarded_rhs"]++
						be.Y = &ast.CallExpr{Fun: fl}
					} else {
						unhooked = append(unhooked, "right operand of "+be.Op.String()+" at "+posStr(be.Y.Pos()))
					}
				}
			}
			return false
		}
		if sel, ok := n.(*ast.SelectorExpr); ok {
			// a.b.c with b a struct VALUE touches only &a.b.c: the inner selection is not a separate access
			if inner, ok := sel.X.(*ast.SelectorExpr); ok && info.Selections[sel] != nil && info.Selections[sel].Kind() == types.FieldVal {
				if tv, ok := info.Types[inner]; ok {
					if _, isStruct := tv.Type.Underlying().(*types.Struct); isStruct {
						skip[inner] = true
					}
				}
			}
		}
		switch x := n.(type) {
		case *ast.FuncLit:
			return false
		case *ast.CallExpr:
			if id, ok := x.Fun.(*ast.Ident); ok && id.Name == "delete" && len(x.Args) == 2 {
				if _, isB := info.Uses[id].(*types.Builtin); isB {
					r.mapW[x.Args[0]] = true
					if r.localMap(x.Args[0]) {
						out = append(out, r.localMapStmt(x.Args[0], x.Pos()))
					}
				}
			}
			if id, ok := x.Fun.(*ast.Ident); ok && id.Name == "len" && len(x.Args) == 1 {
				if _, isB := info.Uses[id].(*types.Builtin); isB && r.localMap(x.Args[0]) {
					out = append(out, r.localMapStmt(x.Args[0], x.Pos()))
				}
			}
			// &x.f handed to a sync/atomic function is the atomic access itself, not an escaping address
			if sel, ok := x.Fun.(*ast.SelectorExpr); ok {
				if id, ok := sel.X.(*ast.Ident); ok {
					if pn, ok := info.Uses[id].(*types.PkgName); ok && (pn.Imported().Path() == "sync/atomic" || id.Name == "simrt") && len(x.Args) > 0 {
						if u, ok := x.Args[0].(*ast.UnaryExpr); ok && u.Op == token.AND {
							skip[u] = true
							if fs, ok := u.X.(*ast.SelectorExpr); ok {
								skip[fs] = true
							}
						}
					}
				}
			}
			// package-level objects of foreign types (big.Int constants, scratch buffers, hashers) used through
			// method calls: the variable is never assigned, yet the object behind it may be mutated
			if sel, ok := x.Fun.(*ast.SelectorExpr); ok {
				if id, ok := sel.X.(*ast.Ident); ok {
					if v := r.foreignPkgVar(id); v != nil {
						kind := 1
						if n := namedOf(v.Type()); n != nil && n.Obj().Pkg().Path() == "math/big" && bigReadOnly[sel.Sel.Name] {
							kind = 0
						}
						out = append(out, r.objStmt(id, v, kind))
						objDone[id] = true
					}
				}
			}
			for _, a := range x.Args {
				// a local alias of a (possibly shared) map handed to a call: whoever receives it reads its contents
				// (json.Marshal(m) after the lock was released)
				if fid, isId := x.Fun.(*ast.Ident); !(isId && (fid.Name == "len" || fid.Name == "delete")) && r.localMap(a) {
					out = append(out, r.localMapStmt(a, a.Pos()))
				}
				if id, ok := a.(*ast.Ident); ok {
					if v := r.foreignPkgVar(id); v != nil {
						out = append(out, r.objStmt(id, v, 0))
						objDone[id] = true
					}
				}
			}
		case *ast.IndexExpr:
			if r.localMap(x.X) {
				out = append(out, r.localMapStmt(x.X, x.Pos()))
			}
		case *ast.UnaryExpr:
			if x.Op == token.AND {
				if id, ok := stripParens(x.X).(*ast.Ident); ok {
					if v, ok := info.Uses[id].(*types.Var); ok && objVars[v] {
						objDone[id] = true // taking the address touches nothing
					}
				}
			}
			if x.Op == token.AND && !skip[x] {
				if sel, ok := x.X.(*ast.SelectorExpr); ok {
					if s := info.Selections[sel]; s != nil && s.Kind() == types.FieldVal && r.sharedField(s) && !isMutex(s.Type()) {
						// fine when the field is itself a shared struct (its own field accesses are hooked
						// wherever they happen); anything else could be written through the pointer unseen
						if n := namedOf(s.Type()); (n == nil || n.Obj().Pkg() == nil || !sharedNames[n.Obj().Pkg().Path()+"."+n.Obj().Name()]) && quietField(s) {
							// a type that is shared only because some package variable of it is written: not fatal
							unhooked = append(unhooked, "&x."+sel.Sel.Name+" at "+posStr(x.Pos()))
							skip[sel] = true
						} else if n == nil || n.Obj().Pkg() == nil || !sharedNames[n.Obj().Pkg().Path()+"."+n.Obj().Name()] {
							r.unsupported(x.Pos(), "address of a shared non-struct field escapes (&x."+sel.Sel.Name+")")
						} else {
							skip[sel] = true
						}
					}
				}
			}
		case *ast.StarExpr:
			if skip[x] {
				return true
			}
			if tv, ok := info.Types[x]; ok {
				if n, ok := tv.Type.(*types.Named); ok && n.Obj().Pkg() != nil && sharedNames[n.Obj().Pkg().Path()+"."+n.Obj().Name()] && pure(x.X) {
					if _, isStruct := n.Underlying().(*types.Struct); isStruct {
						r.usedRT = true
						kind := 0
						if r.writes[x] {
							kind = 1
						}
						stats["accstruct"]++
						fn := "AccStruct"
						if lateShared[n.Obj().Pkg().Path()+"."+n.Obj().Name()] {
							fn = "AccStructQ"
						}
						out = append(out, rtCall(fn, x.X, intLit(kind), strLit(posStr(x.Pos()))))
					}
				}
			}
		case *ast.SelectorExpr:
			if id, ok := stripParens(x.X).(*ast.Ident); ok {
				if v, ok := info.Uses[id].(*types.Var); ok && objVars[v] {
					objDone[id] = true // root of a selection: the selected field is the access, not the variable as a whole
				}
			}
			if st, ok := x.X.(*ast.StarExpr); ok {
				skip[st] = true
			}
			if pe, ok := x.X.(*ast.ParenExpr); ok {
				if st, ok := pe.X.(*ast.StarExpr); ok {
					skip[st] = true
				}
			}
			s := info.Selections[x]
			if s == nil || s.Kind() != types.FieldVal || !r.sharedField(s) || isMutex(s.Type()) || skip[x] {
				return true
			}
			tv := info.Types[x]
			if !tv.Addressable() {
				return true
			}
			if !pure(x.X) {
				// re-evaluating the base would repeat its calls: this access is left unhooked (reported, not fatal:
				// a race needs two accesses and the other side is normally a plain selection)
				unhooked = append(unhooked, "x()."+x.Sel.Name+" at "+posStr(x.Pos()))
				return true
			}
			out = append(out, r.accStmts(x, tv.Type, x.Pos())...)
		case *ast.Ident:
			v, ok := info.Uses[x].(*types.Var)
			if !ok {
				return true
			}
			if fv := r.foreignPkgVar(x); fv != nil && !objDone[x] {
				// handing the object on (return, argument, assignment) counts as reading it: whoever receives it
				// will look inside without any further synchronisation
				out = append(out, r.objStmt(x, fv, 0))
			}
			if objVars[v] && !objDone[x] {
				if _, isStruct := v.Type().Underlying().(*types.Struct); isStruct {
					r.usedRT = true
					kind := 0
					if r.writes[x] {
						kind = 1
					}
					stats["accstruct_var"]++
					out = append(out, rtCall("AccStructQ", &ast.UnaryExpr{Op: token.AND, X: ast.NewIdent(x.Name)}, intLit(kind), strLit(posStr(x.Pos()))))
					return true
				}
			}
			if !writtenVars[v] {
				return true
			}
			out = append(out, r.accStmts(x, v.Type(), x.Pos())...)
		}
		return true
	}
	ast.Inspect(e, visit)
	return out
}

func (r *rewriter) isSynthetic(e ast.Expr) bool {
	if c, ok := e.(*ast.CallExpr); ok {
		if fl, ok := c.Fun.(*ast.FuncLit); ok {
			return r.synthetic[fl]
		}
	}
	return false
}

var atomicShims = func() map[string]bool {
	m := map[string]bool{"Value": true, "Int64": true, "Int32": true, "Uint64": true, "Uint32": true, "Bool": true, "LoadPointer": true, "StorePointer": true}
	for _, op := range []string{"Load", "Store", "Add", "Swap", "CompareAndSwap"} {
		for _, t := range []string{"Int64", "Int32", "Uint64", "Uint32"} {
			m[op+t] = true
		}
	}
	return m
}()

var bigReadOnly = map[string]bool{"Cmp": true, "CmpAbs": true, "Sign": true, "Bytes": true, "Int64": true, "Uint64": true, "IsInt64": true, "IsUint64": true,
	"BitLen": true, "Bit": true, "Bits": true, "String": true, "Text": true, "Append": true, "Format": true, "FillBytes": true, "ProbablyPrime": true,
	"TrailingZeroBits": true, "MarshalText": true, "MarshalJSON": true, "GobEncode": true, "Float64": true}

// foreignPkgVar: id names a package-level variable of this package whose (pointed-to) type is a struct-like
// named type defined outside the module.
func (r *rewriter) foreignPkgVar(id *ast.Ident) *types.Var {
	v, ok := r.p.info.Uses[id].(*types.Var)
	if !ok || v.Parent() != r.p.pkg.Scope() {
		return nil
	}
	n := namedOf(v.Type())
	if n == nil || n.Obj().Pkg() == nil || inModule(n) {
		return nil
	}
	switch n.Obj().Pkg().Path() {
	case "verif/simrt", "sync", "sync/atomic":
		return nil // synchronisation objects are modelled by their shims, not as plain memory
	}
	switch n.Underlying().(type) {
	case *types.Struct, *types.Interface:
		return v
	}
	return nil
}

func (r *rewriter) objStmt(id *ast.Ident, v *types.Var, kind int) ast.Stmt {
	r.usedRT = true
	stats["accobj"]++
	var arg ast.Expr = ast.NewIdent(id.Name)
	if _, isPtr := v.Type().(*types.Pointer); !isPtr {
		if _, isIface := v.Type().Underlying().(*types.Interface); !isIface {
			arg = &ast.UnaryExpr{Op: token.AND, X: arg}
		}
	}
	return rtCall("AccObj", arg, intLit(kind), strLit(id.Name+"@"+posStr(id.Pos())))
}

func (r *rewriter) sharedField(s *types.Selection) bool {
	n := namedOf(s.Recv())
	if n == nil {
		t := s.Recv()
		if p, ok := t.(*types.Pointer); ok {
			t = p.Elem()
		}
		st, ok := t.(*types.Struct)
		return ok && sharedAnon[st]
	}
	return n.Obj().Pkg() != nil && sharedNames[n.Obj().Pkg().Path()+"."+n.Obj().Name()]
}

// quietField: the receiver type is shared only because a package-level variable of it is written or has its
// address taken. Such types (ParsedOpcode, say) are touched all over the interpreter: their hooks record the access
// for the race detector but are scheduling points only at the function-entry granularity of the run.
func quietField(s *types.Selection) bool {
	n := namedOf(s.Recv())
	if n == nil {
		return true
	}
	return n.Obj().Pkg() != nil && lateShared[n.Obj().Pkg().Path()+"."+n.Obj().Name()]
}

func (r *rewriter) accStmts(x ast.Expr, t types.Type, pos token.Pos) []ast.Stmt {
	r.usedRT = true
	site := posStr(pos)
	kind := 0
	if r.writes[x] {
		kind = 1
	}
	stats["acc"]++
	fn := "Acc"
	if sel, ok := x.(*ast.SelectorExpr); ok {
		if s := r.p.info.Selections[sel]; s != nil && quietField(s) {
			fn = "AccQ"
			stats["acc_quiet"]++
		}
	}
	out := []ast.Stmt{rtCall(fn, &ast.UnaryExpr{Op: token.AND, X: x}, intLit(kind), strLit(site))}
	if _, isMap := t.Underlying().(*types.Map); isMap && kind == 0 {
		mk := 2
		if r.mapW[x] {
			mk = 3
		}
		stats["accmap"]++
		out = append(out, rtCall("AccMap", x, intLit(mk), strLit(site)))
	}
	return out
}

// localMap: e is a local variable (or parameter) of map type. A local may alias a shared map ("m := x.fees"
// under the lock, lookups after unlocking), so accesses to its contents are recorded against the map itself.
func (r *rewriter) localMap(e ast.Expr) bool {
	id, ok := e.(*ast.Ident)
	if !ok {
		return false
	}
	v, ok := r.p.info.Uses[id].(*types.Var)
	if !ok || v.IsField() || v.Parent() == nil || v.Parent() == r.p.pkg.Scope() {
		return false
	}
	_, isMap := v.Type().Underlying().(*types.Map)
	return isMap
}

func (r *rewriter) localMapStmt(e ast.Expr, pos token.Pos) ast.Stmt {
	r.usedRT = true
	mk := 2
	if r.mapW[e] {
		mk = 3
	}
	stats["accmap_local"]++
	return rtCall("AccMap", ast.NewIdent(e.(*ast.Ident).Name), intLit(mk), strLit(posStr(pos)))
}

func (r *rewriter) block(list []ast.Stmt) []ast.Stmt {
	var out []ast.Stmt
	for _, st := range list {
		hooks, after := r.stmt(st)
		out = append(out, hooks...)
		out = append(out, st)
		out = append(out, after...)
	}
	return out
}

// stmt instruments one statement in place and returns the hooks to put before it.
func (r *rewriter) stmt(st ast.Stmt) (before []ast.Stmt, after []ast.Stmt) {
	r.markTargets(st)
	switch s := st.(type) {
	case *ast.BlockStmt:
		s.List = r.block(s.List)
	case *ast.LabeledStmt:
		b, _ := r.stmt(s.Stmt)
		before = b
	case *ast.IfStmt:
		if s.Init != nil {
			b, _ := r.stmt(s.Init)
			before = append(before, b...)
		}
		before = append(before, r.hooksIn(s.Cond)...)
		r.funcLits(s.Cond)
		s.Body.List = r.block(s.Body.List)
		if s.Else != nil {
			switch e := s.Else.(type) {
			case *ast.BlockStmt:
				e.List = r.block(e.List)
			case *ast.IfStmt:
				b, _ := r.stmt(e)
				// hooks of an else-if condition are evaluated only on that path: put them in a wrapping block
				if len(b) > 0 {
					s.Else = &ast.BlockStmt{List: append(b, e)}
				}
			}
		}
	case *ast.ForStmt:
		if s.Init != nil {
			b, _ := r.stmt(s.Init)
			before = append(before, b...)
		}
		ch := r.hooksIn(s.Cond)
		before = append(before, ch...)
		var ph []ast.Stmt
		if s.Post != nil {
			ph, _ = r.stmt(s.Post)
		}
		r.funcLits(s.Cond)
		s.Body.List = r.block(s.Body.List)
		// condition and post are re-evaluated each iteration
		s.Body.List = append(s.Body.List, append(ph, r.hooksIn(s.Cond)...)...)
	case *ast.RangeStmt:
		before = append(before, r.hooksIn(s.X)...)
		if r.localMap(s.X) {
			before = append(before, r.localMapStmt(s.X, s.Pos()))
		}
		if s.Tok == token.ASSIGN {
			before = append(before, r.hooksIn(s.Key)...)
			before = append(before, r.hooksIn(s.Value)...)
		}
		r.funcLits(s.X)
		s.Body.List = r.block(s.Body.List)
	case *ast.SwitchStmt:
		if s.Init != nil {
			b, _ := r.stmt(s.Init)
			before = append(before, b...)
		}
		before = append(before, r.hooksIn(s.Tag)...)
		for _, c := range s.Body.List {
			cc := c.(*ast.CaseClause)
			for _, e := range cc.List {
				before = append(before, r.hooksIn(e)...)
			}
			cc.Body = r.block(cc.Body)
		}
	case *ast.TypeSwitchStmt:
		if s.Init != nil {
			b, _ := r.stmt(s.Init)
			before = append(before, b...)
		}
		before = append(before, r.hooksIn(s.Assign)...)
		for _, c := range s.Body.List {
			cc := c.(*ast.CaseClause)
			cc.Body = r.block(cc.Body)
		}
	case *ast.SelectStmt:
		// the "leaky buffer" idiom — every communication guarded by a default clause — never blocks, so the real
		// channel can stay: a yield and a (conservative, two-way) synchronisation edge on the channel go in front
		// of it and a yield behind it. Anything that can block is not modelled.
		hasDefault := false
		for _, cl := range s.Body.List {
			if cl.(*ast.CommClause).Comm == nil {
				hasDefault = true
			}
		}
		if !hasDefault {
			r.unsupported(s.Pos(), "select statement that can block")
			break
		}
		for _, cl := range s.Body.List {
			cc := cl.(*ast.CommClause)
			if cc.Comm != nil {
				var ch ast.Expr
				switch cm := cc.Comm.(type) {
				case *ast.SendStmt:
					ch = cm.Chan
					allowedChanOps[cm] = true
				case *ast.ExprStmt:
					if u, ok := cm.X.(*ast.UnaryExpr); ok && u.Op == token.ARROW {
						ch = u.X
						allowedChanOps[u] = true
					}
				case *ast.AssignStmt:
					if len(cm.Rhs) == 1 {
						if u, ok := cm.Rhs[0].(*ast.UnaryExpr); ok && u.Op == token.ARROW {
							ch = u.X
							allowedChanOps[u] = true
						}
					}
				}
				if ch == nil || !pure(ch) {
					r.unsupported(cc.Pos(), "select communication on a computed channel")
					continue
				}
				r.usedRT = true
				stats["chanop"]++
				before = append(before, rtCall("ChanOp", ch, strLit(posStr(cc.Pos()))))
			}
			// a yield right after the communication took place (first thing in the chosen clause)
			cc.Body = append([]ast.Stmt{rtCall("YieldPoint", strLit("after-select@"+posStr(s.Pos())))}, r.block(cc.Body)...)
		}
	case *ast.SendStmt:
		if !allowedChanOps[s] {
			r.unsupported(s.Pos(), "blocking channel send")
		}
	case *ast.GoStmt:
		r.unsupported(s.Pos(), "go statement")
	case *ast.DeferStmt:
		before = append(before, r.hooksIn(s.Call)...)
		r.funcLits(s.Call)
	default:
		// simple statements: expression, assignment, inc/dec, return, decl, branch, empty
		before = append(before, r.hooksIn(st)...)
		r.funcLits(st)
	}
	return before, after
}

// funcLits instruments the bodies of function literals appearing in n.
func (r *rewriter) funcLits(n ast.Node) {
	if n == nil {
		return
	}
	ast.Inspect(n, func(x ast.Node) bool {
		if fl, ok := x.(*ast.FuncLit); ok {
			if r.synthetic[fl] {
				// its hooks are in place already; function literals inside the guarded operand still need theirs
				for _, st := range fl.Body.List {
					if rs, ok := st.(*ast.ReturnStmt); ok {
						for _, e := range rs.Results {
							r.funcLits(e)
						}
					}
				}
				return false
			}
			fl.Body.List = r.block(fl.Body.List)
			return false
		}
		return true
	})
}

func (r *rewriter) rewriteFile() {
	info := r.p.info
	// 1. constructs and simple replacements
	ast.Inspect(r.file, func(n ast.Node) bool {
		switch x := n.(type) {
		case *ast.UnaryExpr:
			if x.Op == token.ARROW {
				pendingRecv = append(pendingRecv, x)
			}
		case *ast.RangeStmt:
			if tv, ok := info.Types[x.X]; ok {
				if _, isChan := tv.Type.Underlying().(*types.Chan); isChan {
					r.unsupported(x.Pos(), "range over a channel")
				}
			}
		case *ast.SelectorExpr:
			id, ok := x.X.(*ast.Ident)
			if !ok {
				return true
			}
			pn, ok := info.Uses[id].(*types.PkgName)
			if !ok {
				return true
			}
			switch pn.Imported().Path() {
			case "sync":
				switch x.Sel.Name {
				case "RWMutex", "Mutex", "Once", "Pool":
					id.Name = "simrt"
					r.usedRT = true
					stats["sync"]++
				default:
					r.unsupported(x.Pos(), "sync."+x.Sel.Name+" (no shim)")
				}
			case "sync/atomic":
				if atomicShims[x.Sel.Name] {
					id.Name = "simrt"
					r.usedRT = true
					stats["atomic"]++
				} else {
					r.unsupported(x.Pos(), "sync/atomic."+x.Sel.Name+" (no shim)")
				}
			case "time":
				if x.Sel.Name == "Now" {
					id.Name = "simrt"
					r.usedRT = true
					stats["time.Now"]++
				} else if x.Sel.Name == "AfterFunc" || x.Sel.Name == "Timer" || x.Sel.Name == "Until" || x.Sel.Name == "Since" {
					// simulated timers: fire when the simulated clock passes the deadline, run in the timer task
					id.Name = "simrt"
					r.usedRT = true
					stats["time.timer"]++
				} else if x.Sel.Name == "Sleep" || x.Sel.Name == "After" || x.Sel.Name == "NewTimer" || x.Sel.Name == "NewTicker" || x.Sel.Name == "Tick" {
					r.unsupported(x.Pos(), "time."+x.Sel.Name+" (no simulated timer)")
				}
			}
		}
		return true
	})
	defer func() {
		for _, u := range pendingRecv {
			if !allowedChanOps[u] {
				r.unsupported(u.Pos(), "blocking channel receive")
			}
		}
		pendingRecv = nil
	}()
	// 2. access hooks + function-entry yields
	for _, d := range r.file.Decls {
		fd, ok := d.(*ast.FuncDecl)
		if !ok || fd.Body == nil {
			continue
		}
		trivial := false
		if len(fd.Body.List) == 1 {
			_, trivial = fd.Body.List[0].(*ast.ReturnStmt) // plain getters are not worth a scheduling point (judged before hooks are added)
		}
		fd.Body.List = r.block(fd.Body.List)
		if r.yieldFns && !trivial && len(fd.Body.List) > 0 {
			r.usedRT = true
			stats["yield"]++
			name := fd.Name.Name
			fd.Body.List = append([]ast.Stmt{rtCall("Yield", strLit(name+"@"+posStr(fd.Pos())))}, fd.Body.List...)
		}
	}
	// package-level initialisers may hold function literals too
	for _, d := range r.file.Decls {
		if gd, ok := d.(*ast.GenDecl); ok {
			r.funcLits(gd)
		}
	}
}

func fixImports(f *ast.File, needRT bool, src []byte) {
	uses := func(name string) bool {
		found := false
		ast.Inspect(f, func(n ast.Node) bool {
			if sel, ok := n.(*ast.SelectorExpr); ok {
				if id, ok := sel.X.(*ast.Ident); ok && id.Name == name && id.Obj == nil {
					found = true
				}
			}
			return !found
		})
		return found
	}
	for _, d := range f.Decls {
		gd, ok := d.(*ast.GenDecl)
		if !ok || gd.Tok != token.IMPORT {
			continue
		}
		var keep []ast.Spec
		for _, sp := range gd.Specs {
			is := sp.(*ast.ImportSpec)
			p, _ := strconv.Unquote(is.Path.Value)
			base := p
			if p == "sync/atomic" {
				base = "atomic"
			}
			if (p == "sync" || p == "time" || p == "sync/atomic") && is.Name == nil && !uses(base) {
				continue
			}
			keep = append(keep, sp)
		}
		if needRT {
			keep = append(keep, &ast.ImportSpec{Path: &ast.BasicLit{Kind: token.STRING, Value: strconv.Quote("verif/simrt")}})
			needRT = false
		}
		gd.Specs = keep
		if len(keep) > 1 && gd.Lparen == token.NoPos {
			gd.Lparen = gd.Pos()
			gd.Rparen = gd.End()
		}
	}
	if needRT {
		f.Decls = append([]ast.Decl{&ast.GenDecl{Tok: token.IMPORT, Specs: []ast.Spec{&ast.ImportSpec{Path: &ast.BasicLit{Kind: token.STRING, Value: strconv.Quote("verif/simrt")}}}}}, f.Decls...)
	}
}

// findObjVars marks package-level struct variables (module or anonymous struct types) that are written through a field
// selection ("G.f = v", "G.f.g++") or whose address is taken ("p := &G", "&G.f") outside init, and returns them.
func findObjVars(p *pkgInfo) []*types.Var {
	var found []*types.Var
	rootVar := func(e ast.Expr, needSel bool) *types.Var {
		sel := false
		for {
			switch x := e.(type) {
			case *ast.ParenExpr:
				e = x.X
				continue
			case *ast.SelectorExpr:
				if s := p.info.Selections[x]; s == nil || s.Kind() != types.FieldVal {
					return nil
				}
				sel = true
				e = x.X
				continue
			case *ast.StarExpr:
				e = x.X
				continue
			}
			break
		}
		id, ok := e.(*ast.Ident)
		if !ok || (needSel && !sel) {
			return nil
		}
		v, ok := p.info.Uses[id].(*types.Var)
		if !ok || v.Parent() != p.pkg.Scope() {
			return nil
		}
		t := v.Type()
		if sel {
			if pt, ok := t.(*types.Pointer); ok {
				t = pt.Elem()
			}
		}
		if n, ok := t.(*types.Named); ok {
			if !inModule(n) {
				return nil
			}
		}
		if _, isStruct := t.Underlying().(*types.Struct); !isStruct {
			return nil
		}
		return v
	}
	add := func(v *types.Var) {
		if v != nil && !objVars[v] {
			objVars[v] = true
			found = append(found, v)
		}
	}
	for _, f := range p.files {
		for _, d := range f.Decls {
			fd, ok := d.(*ast.FuncDecl)
			if !ok || fd.Body == nil || (fd.Name.Name == "init" && fd.Recv == nil) {
				continue
			}
			ast.Inspect(fd.Body, func(n ast.Node) bool {
				switch s := n.(type) {
				case *ast.UnaryExpr:
					if s.Op == token.AND {
						add(rootVar(s.X, false))
					}
				case *ast.AssignStmt:
					if s.Tok != token.DEFINE {
						for _, l := range s.Lhs {
							add(rootVar(l, true))
						}
					}
				case *ast.IncDecStmt:
					add(rootVar(s.X, true))
				}
				return true
			})
		}
	}
	return found
}

// findWrittenVars marks package-level variables assigned outside init/declaration.
func findWrittenVars(p *pkgInfo) {
	for _, f := range p.files {
		for _, d := range f.Decls {
			fd, ok := d.(*ast.FuncDecl)
			if !ok || fd.Body == nil || (fd.Name.Name == "init" && fd.Recv == nil) {
				continue
			}
			ast.Inspect(fd.Body, func(n ast.Node) bool {
				mark := func(e ast.Expr) {
					for {
						switch x := e.(type) {
						case *ast.ParenExpr:
							e = x.X
							continue
						case *ast.IndexExpr:
							e = x.X
							continue
						}
						break
					}
					if id, ok := e.(*ast.Ident); ok {
						if v, ok := p.info.Uses[id].(*types.Var); ok && v.Parent() == p.pkg.Scope() {
							writtenVars[v] = true
						}
					}
				}
				switch s := n.(type) {
				case *ast.AssignStmt:
					if s.Tok != token.DEFINE {
						for _, l := range s.Lhs {
							mark(l)
						}
					}
				case *ast.IncDecStmt:
					mark(s.X)
				case *ast.CallExpr:
					if id, ok := s.Fun.(*ast.Ident); ok && id.Name == "delete" && len(s.Args) == 2 {
						mark(s.Args[0])
					}
				}
				return true
			})
		}
	}
}

func main() {
	dir := flag.String("dir", "", "scratch copy of go-bt to rewrite in place")
	simrt := flag.String("simrt", "/verif/simrt", "path of the runtime shim module")
	flag.Parse()
	if *dir == "" {
		fail("-dir required")
	}
	root = *dir
	if strings.HasPrefix(root, "/repo") {
		fail("refusing to instrument /repo itself")
	}
	if err := os.Chdir(root); err != nil {
		fail("%v", err)
	}
	imp := importer.ForCompiler(fset, "source", nil)
	bt := load(root, modPath, imp)
	in := load(filepath.Join(root, "bscript/interpreter"), modPath+"/bscript/interpreter", imp)
	// shared roots
	seen := map[types.Type]bool{}
	for _, rt := range []struct {
		p    *pkgInfo
		name string
	}{{bt, "FeeQuotes"}, {bt, "FeeQuote"}, {in, "engine"}} {
		obj := rt.p.pkg.Scope().Lookup(rt.name)
		if obj == nil {
			fail("shared root type %s not found (renamed?)", rt.name)
		}
		closeShared(obj.Type(), seen)
	}
	// package-level struct variables written through a field or through a pointer taken to them
	before := map[*types.TypeName]bool{}
	for tn := range shared {
		before[tn] = true
	}
	var ov []string
	for _, p := range []*pkgInfo{bt, in} {
		for _, v := range findObjVars(p) {
			ov = append(ov, v.Pkg().Name()+"."+v.Name())
			t := v.Type()
			if pt, ok := t.(*types.Pointer); ok {
				t = pt.Elem()
			}
			if st, ok := t.(*types.Struct); ok {
				sharedAnon[st] = true
			}
			closeShared(t, seen)
		}
	}
	for tn := range shared {
		if !before[tn] {
			lateShared[tn.Pkg().Path()+"."+tn.Name()] = true
		}
	}
	sort.Strings(ov)
	// the closure was computed on each package's own type universe; re-map by qualified name so that
	// bt types seen from the interpreter package (a separate type-check) are matched too
	names := sharedNames
	for tn := range shared {
		names[tn.Pkg().Path()+"."+tn.Name()] = true
	}
	for _, p := range []*pkgInfo{bt, in} {
		for _, obj := range p.info.Uses {
			if tn, ok := obj.(*types.TypeName); ok && tn.Pkg() != nil && names[tn.Pkg().Path()+"."+tn.Name()] {
				shared[tn] = true
			}
		}
		for _, obj := range p.info.Defs {
			if tn, ok := obj.(*types.TypeName); ok && tn.Pkg() != nil && names[tn.Pkg().Path()+"."+tn.Name()] {
				shared[tn] = true
			}
		}
		findWrittenVars(p)
	}
	for _, p := range []*pkgInfo{bt, in} {
		for i, f := range p.files {
			r := &rewriter{p: p, file: f, writes: map[ast.Expr]bool{}, mapW: map[ast.Expr]bool{}, yieldFns: p == in, synthetic: map[*ast.FuncLit]bool{}}
			r.rewriteFile()
			if !r.usedRT {
				continue
			}
			fixImports(f, true, nil)
			var buf bytes.Buffer
			if err := format.Node(&buf, fset, f); err != nil {
				fail("print %s: %v", p.names[i], err)
			}
			if err := os.WriteFile(p.names[i], buf.Bytes(), 0o644); err != nil {
				fail("write: %v", err)
			}
		}
	}
	if len(unsupported) > 0 {
		sort.Strings(unsupported)
		for _, u := range unsupported {
			fmt.Fprintln(os.Stderr, "instrumentation unsupported:", u)
		}
		os.Exit(2)
	}
	// go.mod of the scratch copy learns about the shim
	gm, err := os.ReadFile(filepath.Join(root, "go.mod"))
	if err != nil {
		fail("%v", err)
	}
	gm = append(gm, []byte(fmt.Sprintf("\nrequire verif/simrt v0.0.0-00010101000000-000000000000\n\nreplace verif/simrt => %s\n", *simrt))...)
	if err := os.WriteFile(filepath.Join(root, "go.mod"), gm, 0o644); err != nil {
		fail("%v", err)
	}
	var sn []string
	for tn := range shared {
		sn = append(sn, tn.Pkg().Name()+"."+tn.Name())
	}
	sort.Strings(sn)
	sn = dedup(sn)
	var wv []string
	for v := range writtenVars {
		wv = append(wv, v.Pkg().Name()+"."+v.Name())
	}
	sort.Strings(wv)
	if len(unhooked) > 0 {
		sort.Strings(unhooked)
		fmt.Printf("instrument: %d shared-field accesses through call expressions left unhooked, e.g. %s\n", len(unhooked), unhooked[0])
	}
	fmt.Printf("instrumented: shared types %v; package variables written after init %v; struct variables written or address-taken after init %v; hooks: %v\n", sn, wv, ov, stats)
}

func dedup(s []string) []string {
	var out []string
	for i, x := range s {
		if i == 0 || x != s[i-1] {
			out = append(out, x)
		}
	}
	return out
}
