// Command verifsim is the deterministic-simulation driver for go-bt.
package main

import (
	"verif/sim/kernel"
	_ "verif/sim/worlds"
)

func main() { kernel.Main() }
