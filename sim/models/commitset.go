package models

import (
	"encoding/binary"
)

// Commitment-set reference model for signature hash types. It does not compute
// digests: it serialises exactly the information a (hash type, algorithm,
// input position) commits to, read off the BSV replay-protected-sighash
// specification and the original (legacy) algorithm. Two transaction states
// have the same digest iff their projections are equal (up to SHA-256d
// collisions).

// CIn / COut / CTx are the model's view of the draft transaction.
type CIn struct {
	TxID [32]byte
	Vout uint32
	Seq  uint32
}

// COut is an output.
type COut struct {
	Sats   uint64
	Script []byte
}

// CTx is the model's transaction.
type CTx struct {
	Version, Lock uint32
	Ins           []CIn
	Outs          []COut
}

func putU32(b []byte, v uint32) []byte { return binary.LittleEndian.AppendUint32(b, v) }
func putU64(b []byte, v uint64) []byte { return binary.LittleEndian.AppendUint64(b, v) }
func putBlob(b, s []byte) []byte {
	b = putU64(b, uint64(len(s)))
	return append(b, s...)
}
func putOut(b []byte, o COut) []byte { return putBlob(putU64(b, o.Sats), o.Script) }
func putOutpoint(b []byte, in CIn) []byte {
	return putU32(append(b, in.TxID[:]...), in.Vout)
}

// Projection returns what signing input i with hash type f commits to, given
// the spent output as presented (value, script). forkID selects the algorithm
// (bit 0x40 of f).
func Projection(t *CTx, i int, f byte, spentValue uint64, spentScript []byte) []byte {
	base := f & 0x1f
	acp := f&0x80 != 0
	forkID := f&0x40 != 0
	if i < 0 || i >= len(t.Ins) {
		return []byte("no-such-input")
	}
	own := t.Ins[i]
	if forkID {
		b := []byte{'F'}
		b = putU32(b, t.Version)
		if !acp {
			b = append(b, 'P')
			b = putU64(b, uint64(len(t.Ins)))
			for _, in := range t.Ins {
				b = putOutpoint(b, in)
			}
		} else {
			b = append(b, '-')
		}
		if !acp && base != 2 && base != 3 {
			b = append(b, 'S')
			for _, in := range t.Ins {
				b = putU32(b, in.Seq)
			}
		} else {
			b = append(b, '-')
		}
		b = putOutpoint(b, own)
		b = putBlob(b, spentScript)
		b = putU64(b, spentValue)
		b = putU32(b, own.Seq)
		switch {
		case base != 2 && base != 3:
			b = append(b, 'A')
			b = putU64(b, uint64(len(t.Outs)))
			for _, o := range t.Outs {
				b = putOut(b, o)
			}
		case base == 3 && i < len(t.Outs):
			b = append(b, '1')
			b = putOut(b, t.Outs[i])
		default:
			b = append(b, '0')
		}
		b = putU32(b, t.Lock)
		return append(b, f)
	}
	// legacy
	if base == 3 && i >= len(t.Outs) {
		// the SIGHASH_SINGLE bug: the digest is the constant 1
		return []byte("legacy-single-without-matching-output")
	}
	b := []byte{'L'}
	b = putU32(b, t.Version)
	if acp {
		b = append(b, 'a')
		b = putOutpoint(b, own)
		b = putBlob(b, spentScript)
		b = putU32(b, own.Seq)
	} else {
		b = append(b, 'n')
		b = putU64(b, uint64(len(t.Ins)))
		for j, in := range t.Ins {
			b = putOutpoint(b, in)
			if j == i {
				b = putBlob(b, spentScript)
				b = putU32(b, in.Seq)
			} else {
				b = putBlob(b, nil)
				if base == 2 || base == 3 {
					b = putU32(b, 0)
				} else {
					b = putU32(b, in.Seq)
				}
			}
		}
	}
	switch base {
	case 2:
		b = append(b, '0')
	case 3:
		b = append(b, '1')
		b = putU64(b, uint64(i)) // i blanked outputs precede it: the index is committed
		b = putOut(b, t.Outs[i])
	default:
		b = append(b, 'A')
		b = putU64(b, uint64(len(t.Outs)))
		for _, o := range t.Outs {
			b = putOut(b, o)
		}
	}
	b = putU32(b, t.Lock)
	return append(b, f)
}
