package models

import (
	"fmt"
	"sort"
	"strings"
)

// Sequential reference model of the thread-safe fee-quote objects, used as the
// porcupine model. State is immutable (copied on write) and compared by a
// canonical key.

// FQOp is the input of one operation.
type FQOp struct {
	Kind  string // see Step
	Quote int    // pre-existing quote index (for Q* ops)
	Miner string
	Type  string         // fee type
	Fee   int            // unique fee id (AddQuote / UpdateMinerFees)
	Time  int64          // UpdateExpiry / ClockSet
	Doc   map[string]int // UnmarshalJSON: type -> fee id (valid documents)
	DocOK bool           // false: the document is invalid (syntax error or unknown fee type)
	Empty bool           // UpdateMinerFees with an empty argument
}

// FQOut is the observed output.
type FQOut struct {
	Fee    int // fee id; 0 none
	Err    string
	Time   int64
	Bool   bool
	Fees   map[string]int // MarshalJSON
	QClass int            // Quote(): pre-existing index, -1 fresh, -2 none
}

// Fee ids: DefaultFee marks the library default (5 sat / 100 bytes).
const DefaultFee = -5

type fqQuote struct {
	fees   map[string]int
	expiry int64
}

// FQState is the model state.
type FQState struct {
	Clock  int64
	Miners map[string]int // miner -> quote id (>=100: created inside the FeeQuotes object)
	Quotes map[int]fqQuote
	Next   int
	key    string
}

// Key is the canonical form.
func (s *FQState) Key() string {
	if s.key != "" {
		return s.key
	}
	var sb strings.Builder
	fmt.Fprintf(&sb, "c%d n%d|", s.Clock, s.Next)
	ms := make([]string, 0, len(s.Miners))
	for m := range s.Miners {
		ms = append(ms, m)
	}
	sort.Strings(ms)
	for _, m := range ms {
		fmt.Fprintf(&sb, "%s>%d,", m, s.Miners[m])
	}
	qs := make([]int, 0, len(s.Quotes))
	for q := range s.Quotes {
		qs = append(qs, q)
	}
	sort.Ints(qs)
	for _, q := range qs {
		fmt.Fprintf(&sb, "|q%d e%d:", q, s.Quotes[q].expiry)
		ts := make([]string, 0, 2)
		for t := range s.Quotes[q].fees {
			ts = append(ts, t)
		}
		sort.Strings(ts)
		for _, t := range ts {
			fmt.Fprintf(&sb, "%s=%d,", t, s.Quotes[q].fees[t])
		}
	}
	s.key = sb.String()
	return s.key
}

func (s *FQState) clone() *FQState {
	n := &FQState{Clock: s.Clock, Next: s.Next, Miners: map[string]int{}, Quotes: map[int]fqQuote{}}
	for k, v := range s.Miners {
		n.Miners[k] = v
	}
	for k, v := range s.Quotes {
		f := map[string]int{}
		for t, id := range v.fees {
			f[t] = id
		}
		n.Quotes[k] = fqQuote{fees: f, expiry: v.expiry}
	}
	return n
}

// NewFQState builds the initial state: nPre pre-existing quotes with default fees and expiry t0.
func NewFQState(t0 int64, nPre int) *FQState {
	s := &FQState{Clock: t0, Miners: map[string]int{}, Quotes: map[int]fqQuote{}, Next: 100}
	for i := 0; i < nPre; i++ {
		s.Quotes[i] = fqQuote{fees: map[string]int{"standard": DefaultFee, "data": DefaultFee}, expiry: t0}
	}
	return s
}

// ZeroTimeUnix is what Expiry().Unix() gives for a quote whose expiry was never set.
const ZeroTimeUnix = -62135596800

// Blank turns pre-existing quote i into the zero value (&bt.FeeQuote{}): no fees, no expiry (set-up only).
func (s *FQState) Blank(i int) {
	s.Quotes[i] = fqQuote{fees: map[string]int{}, expiry: ZeroTimeUnix}
	s.key = ""
}

// AddFresh registers a miner with a quote created inside the FeeQuotes object (set-up only).
func (s *FQState) AddFresh(miner string) {
	s.Quotes[s.Next] = fqQuote{fees: map[string]int{"standard": DefaultFee, "data": DefaultFee}, expiry: s.Clock}
	s.Miners[miner] = s.Next
	s.Next++
	s.key = ""
}

// Bind registers miner -> pre-existing quote (set-up only).
func (s *FQState) Bind(miner string, q int) { s.Miners[miner] = q; s.key = "" }

func sameFees(a, b map[string]int) bool {
	if len(a) != len(b) {
		return false
	}
	for k, v := range a {
		if w, ok := b[k]; !ok || w != v {
			return false
		}
	}
	return true
}

// Error names used by the harness when classifying library errors.
const (
	ErrNone        = ""
	ErrTypeMissing = "fee-type-not-found"
	ErrNoMiner     = "miner-no-quotes"
	ErrEmpty       = "empty-values"
	ErrBadDoc      = "bad-document"
)

// FQStep is the sequential specification: does output match applying input to state?
func FQStep(st *FQState, in FQOp, out FQOut) (bool, *FQState) {
	feeOf := func(q int, typ string) (int, string) {
		id, ok := st.Quotes[q].fees[typ]
		if !ok || id == 0 {
			return 0, ErrTypeMissing
		}
		return id, ErrNone
	}
	switch in.Kind {
	case "ClockSet":
		n := st.clone()
		n.Clock = in.Time
		return true, n
	case "QFee":
		id, e := feeOf(in.Quote, in.Type)
		return out.Fee == id && out.Err == e, st
	case "QAdd":
		n := st.clone()
		n.Quotes[in.Quote].fees[in.Type] = in.Fee
		return true, n
	case "QExpiry":
		return out.Time == st.Quotes[in.Quote].expiry, st
	case "QUpdateExpiry":
		n := st.clone()
		q := n.Quotes[in.Quote]
		q.expiry = in.Time
		n.Quotes[in.Quote] = q
		return true, n
	case "QExpired":
		// Not constrained here: an expiry check combines a stored expiry with a clock reading, and the clock is not
		// an object the quote guards. It is judged separately (ExpiredExplained): the answer must be explained by SOME
		// expiry value the quote could have held during the call and SOME clock value shown during the call.
		return true, st
	case "QMarshal":
		return out.Err == ErrNone && sameFees(out.Fees, st.Quotes[in.Quote].fees), st
	case "QUnmarshal":
		if !in.DocOK {
			return out.Err == ErrBadDoc, st
		}
		if out.Err != ErrNone {
			return false, st
		}
		n := st.clone()
		q := n.Quotes[in.Quote]
		q.fees = map[string]int{}
		for t, id := range in.Doc {
			q.fees[t] = id
		}
		n.Quotes[in.Quote] = q
		return true, n
	case "SAddDefault":
		n := st.clone()
		n.Quotes[n.Next] = fqQuote{fees: map[string]int{"standard": DefaultFee, "data": DefaultFee}, expiry: st.Clock}
		n.Miners[in.Miner] = n.Next
		n.Next++
		return true, n
	case "SAddMiner":
		n := st.clone()
		n.Miners[in.Miner] = in.Quote
		return true, n
	case "SQuote":
		q, ok := st.Miners[in.Miner]
		if !ok {
			return out.Err == ErrNoMiner && out.QClass == -2, st
		}
		if q >= 100 {
			return out.Err == ErrNone && out.QClass == -1, st
		}
		return out.Err == ErrNone && out.QClass == q, st
	case "SFee":
		// Not constrained here: FeeQuotes.Fee is a two-level read (which quote does the miner have, what does that quote
		// charge). The property promises that a read returns a value some write stored, not that the two levels are read
		// in one atomic step; it is judged separately (SFeeExplained).
		return true, st
	case "SUpdate":
		if in.Empty {
			return out.Err == ErrEmpty, st
		}
		q, ok := st.Miners[in.Miner]
		if !ok {
			return out.Err == ErrNoMiner, st
		}
		if out.Err != ErrNone {
			return false, st
		}
		n := st.clone()
		n.Quotes[q].fees[in.Type] = in.Fee
		return true, n
	}
	return false, st
}

// Describe renders an operation for logs.
func (in FQOp) Describe(out FQOut) string {
	switch in.Kind {
	case "ClockSet":
		return fmt.Sprintf("ClockSet(%d)", in.Time)
	case "QFee":
		return fmt.Sprintf("Q%d.Fee(%s) -> fee#%d %s", in.Quote, in.Type, out.Fee, out.Err)
	case "QAdd":
		return fmt.Sprintf("Q%d.AddQuote(%s, fee#%d)", in.Quote, in.Type, in.Fee)
	case "QExpiry":
		return fmt.Sprintf("Q%d.Expiry() -> %d", in.Quote, out.Time)
	case "QUpdateExpiry":
		return fmt.Sprintf("Q%d.UpdateExpiry(%d)", in.Quote, in.Time)
	case "QExpired":
		return fmt.Sprintf("Q%d.Expired() -> %v", in.Quote, out.Bool)
	case "QMarshal":
		return fmt.Sprintf("Q%d.MarshalJSON() -> %v %s", in.Quote, out.Fees, out.Err)
	case "QUnmarshal":
		return fmt.Sprintf("Q%d.UnmarshalJSON(%v ok=%v) -> %s", in.Quote, in.Doc, in.DocOK, out.Err)
	case "SAddDefault":
		return fmt.Sprintf("AddMinerWithDefault(%s)", in.Miner)
	case "SAddMiner":
		return fmt.Sprintf("AddMiner(%s, Q%d)", in.Miner, in.Quote)
	case "SQuote":
		return fmt.Sprintf("Quote(%s) -> class %d %s", in.Miner, out.QClass, out.Err)
	case "SFee":
		return fmt.Sprintf("FeeQuotes.Fee(%s,%s) -> fee#%d %s", in.Miner, in.Type, out.Fee, out.Err)
	case "SUpdate":
		return fmt.Sprintf("UpdateMinerFees(%s,%s,fee#%d empty=%v) -> %s", in.Miner, in.Type, in.Fee, in.Empty, out.Err)
	}
	return in.Kind
}

// Interval is one recorded operation for ExpiredExplained.
type Interval struct {
	Call, Ret int64
	In        FQOp
	Out       FQOut
}

// ExpiredExplained checks every Expired() answer of a history: it must equal e < c for an expiry value e that a
// write stored and that could still have been current at some instant of the call, and a clock value c that the
// clock showed at some instant of the call. Returns a description of the first unexplained answer, or "".
func ExpiredExplained(h []Interval, initExpiry, initClock int64) string {
	type w struct {
		call, ret, val int64
	}
	for _, op := range h {
		if op.In.Kind != "QExpired" {
			continue
		}
		cands := func(kind string, quote int, init int64) []int64 {
			ws := []w{{-1, -1, init}}
			for _, o := range h {
				if o.In.Kind == kind && (kind == "ClockSet" || o.In.Quote == quote) {
					ws = append(ws, w{o.Call, o.Ret, o.In.Time})
				}
			}
			var out []int64
			for i, a := range ws {
				if a.call > op.Ret {
					continue // started after the answer was given
				}
				overwritten := false
				for j, b := range ws {
					if i != j && b.call > a.ret && b.ret < op.Call {
						overwritten = true // a later write had completed before the call began
					}
				}
				if !overwritten {
					out = append(out, a.val)
				}
			}
			return out
		}
		es := cands("QUpdateExpiry", op.In.Quote, initExpiry)
		cs := cands("ClockSet", 0, initClock)
		if op.Out.Bool {
			// "expired" may be latched: any clock value shown up to the end of the call can explain it (a wall clock
			// that is stepped back does not un-expire a quote); "not expired" needs a value shown during the call
			cs = []int64{initClock}
			for _, o := range h {
				if o.In.Kind == "ClockSet" && o.Call <= op.Ret {
					cs = append(cs, o.In.Time)
				}
			}
		}
		ok := false
		for _, e := range es {
			for _, c := range cs {
				if (e < c) == op.Out.Bool {
					ok = true
				}
			}
		}
		if !ok {
			return fmt.Sprintf("Q%d.Expired() over [%d..%d] answered %v, but every expiry it could have seen %v compared with every clock value shown during the call %v says otherwise", op.In.Quote, op.Call, op.Ret, op.Out.Bool, es, cs)
		}
	}
	return ""
}

// SFeeExplained checks every FeeQuotes.Fee(miner, type) answer of a history against what the property promises: a fee
// that is returned is the library default or one that some write of that fee type (AddQuote, UpdateMinerFees, a
// restored document) stored, and that write had been invoked before the read returned; "no such miner" needs the
// miner not to have been registered before the call began (miners are never removed); "no such fee type" needs a
// restore that drops the type. minersAtStart are the miners registered before the tasks started.
func SFeeExplained(h []Interval, minersAtStart map[string]bool, blankQuotes bool) string {
	for _, op := range h {
		if op.In.Kind != "SFee" {
			continue
		}
		switch {
		case op.Out.Err == ErrNone:
			if op.Out.Fee == DefaultFee {
				continue
			}
			ok := false
			for _, w := range h {
				if w.Call >= op.Ret {
					continue
				}
				switch w.In.Kind {
				case "QAdd", "SUpdate":
					if w.In.Fee == op.Out.Fee && w.In.Type == op.In.Type && !w.In.Empty {
						ok = true
					}
				case "QUnmarshal":
					if w.In.DocOK && w.In.Doc[op.In.Type] == op.Out.Fee {
						ok = true
					}
				}
			}
			if !ok {
				return fmt.Sprintf("FeeQuotes.Fee(%s,%s) over [%d..%d] returned fee#%d, which no write of that fee type invoked before the read returned ever stored", op.In.Miner, op.In.Type, op.Call, op.Ret, op.Out.Fee)
			}
		case op.Out.Err == ErrNoMiner:
			registered := minersAtStart[op.In.Miner]
			for _, w := range h {
				if (w.In.Kind == "SAddMiner" || w.In.Kind == "SAddDefault") && w.In.Miner == op.In.Miner && w.Ret < op.Call {
					registered = true
				}
			}
			if registered {
				return fmt.Sprintf("FeeQuotes.Fee(%s,%s) over [%d..%d] says the miner has no quotes, but it was registered before the call began and miners are never removed", op.In.Miner, op.In.Type, op.Call, op.Ret)
			}
		case op.Out.Err == ErrTypeMissing:
			ok := blankQuotes // quotes that start out as the zero value have no fee types until a document is restored
			for _, w := range h {
				if w.In.Kind == "QUnmarshal" && w.In.DocOK && w.Call < op.Ret {
					if _, has := w.In.Doc[op.In.Type]; !has {
						ok = true
					}
				}
			}
			if !ok {
				return fmt.Sprintf("FeeQuotes.Fee(%s,%s) over [%d..%d] says the fee type is missing, but no restore that drops it was invoked before the read returned", op.In.Miner, op.In.Type, op.Call, op.Ret)
			}
		default:
			return fmt.Sprintf("FeeQuotes.Fee(%s,%s) over [%d..%d] failed with %s", op.In.Miner, op.In.Type, op.Call, op.Ret, op.Out.Err)
		}
	}
	return ""
}

// ExpiredAtQuiescence: with every task finished, may Expired() answer x for a quote whose Expiry() is e while the
// clock shows now? "false" must be the plain comparison. "true" is also accepted when the comparison says false but
// the clock has, at some earlier instant of the history, shown a value beyond e: an implementation may latch
// "expired" (timers run on elapsed time; a wall clock that is stepped back does not un-expire a quote).
func ExpiredAtQuiescence(x bool, e, now int64, clocksShown []int64) bool {
	want := e < now
	if x == want {
		return true
	}
	if x && !want {
		for _, c := range clocksShown {
			if e < c {
				return true
			}
		}
	}
	return false
}
