// Package models holds the small executable reference models used as oracles.
// Nothing here imports go-bt.
package models

import (
	"crypto/sha256"
	"encoding/binary"
	"errors"
)

// RIn / ROut / RTx are the reference transaction, written from the wire-format
// description (version | [00 00 00 00 00 EF] | varint n_in | inputs | varint
// n_out | outputs | locktime; extended inputs append 8-byte value + script).
type RIn struct {
	TxIDWire   [32]byte // as serialised (the display form is byte-reversed)
	Vout       uint32
	Script     []byte
	Seq        uint32
	PrevSats   uint64
	PrevScript []byte
}

// ROut is a reference output.
type ROut struct {
	Sats   uint64
	Script []byte
}

// RTx is a reference transaction.
type RTx struct {
	Version uint32
	Ins     []RIn
	Outs    []ROut
	Lock    uint32
}

// Field locates one length/count field inside an encoding.
type Field struct {
	Name string
	Off  int    // offset of the varint
	Len  int    // its encoded length
	Val  uint64 // its value
}

// VarInt is the minimal compact-size encoding.
func VarInt(n uint64) []byte {
	switch {
	case n < 0xfd:
		return []byte{byte(n)}
	case n <= 0xffff:
		return []byte{0xfd, byte(n), byte(n >> 8)}
	case n <= 0xffffffff:
		b := make([]byte, 5)
		b[0] = 0xfe
		binary.LittleEndian.PutUint32(b[1:], uint32(n))
		return b
	}
	b := make([]byte, 9)
	b[0] = 0xff
	binary.LittleEndian.PutUint64(b[1:], n)
	return b
}

// VarIntWide encodes n in the class of the given width (1,3,5,9) — possibly
// non-minimal. ok=false if n does not fit.
func VarIntWide(n uint64, width int) ([]byte, bool) {
	switch width {
	case 1:
		if n < 0xfd {
			return []byte{byte(n)}, true
		}
	case 3:
		if n <= 0xffff {
			return []byte{0xfd, byte(n), byte(n >> 8)}, true
		}
	case 5:
		if n <= 0xffffffff {
			b := make([]byte, 5)
			b[0] = 0xfe
			binary.LittleEndian.PutUint32(b[1:], uint32(n))
			return b, true
		}
	case 9:
		b := make([]byte, 9)
		b[0] = 0xff
		binary.LittleEndian.PutUint64(b[1:], n)
		return b, true
	}
	return nil, false
}

type enc struct {
	b      []byte
	fields []Field
	widen  map[int]int // field ordinal -> forced width
}

func (e *enc) u32(v uint32) { e.b = binary.LittleEndian.AppendUint32(e.b, v) }
func (e *enc) u64(v uint64) { e.b = binary.LittleEndian.AppendUint64(e.b, v) }
func (e *enc) vi(name string, n uint64) {
	vb := VarInt(n)
	if w, ok := e.widen[len(e.fields)]; ok {
		if wb, ok2 := VarIntWide(n, w); ok2 && len(wb) >= len(vb) {
			vb = wb
		}
	}
	e.fields = append(e.fields, Field{name, len(e.b), len(vb), n})
	e.b = append(e.b, vb...)
}

// Encode serialises in standard or extended format. widen optionally forces
// non-minimal widths for chosen field ordinals (nil: canonical).
func (t *RTx) Encode(extended bool, widen map[int]int) ([]byte, []Field) {
	e := &enc{widen: widen}
	t.encodeInto(e, extended)
	return e.b, e.fields
}

func (t *RTx) encodeInto(e *enc, extended bool) {
	e.u32(t.Version)
	if extended {
		e.b = append(e.b, 0, 0, 0, 0, 0, 0xEF)
	}
	e.vi("n_in", uint64(len(t.Ins)))
	for _, in := range t.Ins {
		e.b = append(e.b, in.TxIDWire[:]...)
		e.u32(in.Vout)
		e.vi("in_script_len", uint64(len(in.Script)))
		e.b = append(e.b, in.Script...)
		e.u32(in.Seq)
		if extended {
			e.u64(in.PrevSats)
			e.vi("prev_script_len", uint64(len(in.PrevScript)))
			e.b = append(e.b, in.PrevScript...)
		}
	}
	e.vi("n_out", uint64(len(t.Outs)))
	for _, o := range t.Outs {
		e.u64(o.Sats)
		e.vi("out_script_len", uint64(len(o.Script)))
		e.b = append(e.b, o.Script...)
	}
	e.u32(t.Lock)
}

// EncodeList serialises several transactions back to back, optionally
// preceded by a count varint (block list). Field offsets are global.
func EncodeList(txs []*RTx, extended bool, counted bool, widen map[int]int) ([]byte, []Field, []int) {
	e := &enc{widen: widen}
	if counted {
		e.vi("n_tx", uint64(len(txs)))
	}
	var ends []int
	for _, t := range txs {
		t.encodeInto(e, extended)
		ends = append(ends, len(e.b))
	}
	return e.b, e.fields, ends
}

// TxIDDisplay is the byte-reversed double SHA-256 of the standard serialisation.
func (t *RTx) TxIDDisplay() []byte {
	b, _ := t.Encode(false, nil)
	h1 := sha256.Sum256(b)
	h2 := sha256.Sum256(h1[:])
	out := make([]byte, 32)
	for i := range out {
		out[i] = h2[31-i]
	}
	return out
}

// ErrShort is returned by the reference parser on truncated input.
var ErrShort = errors.New("ref: short input")

type dec struct {
	b       []byte
	p       int
	minimal bool
	budget  int
}

func (d *dec) take(n int) ([]byte, error) {
	if n < 0 || d.p+n > len(d.b) || d.p+n < d.p {
		return nil, ErrShort
	}
	s := d.b[d.p : d.p+n]
	d.p += n
	return s, nil
}
func (d *dec) u32() (uint32, error) {
	s, err := d.take(4)
	if err != nil {
		return 0, err
	}
	return binary.LittleEndian.Uint32(s), nil
}
func (d *dec) u64() (uint64, error) {
	s, err := d.take(8)
	if err != nil {
		return 0, err
	}
	return binary.LittleEndian.Uint64(s), nil
}
func (d *dec) vi() (uint64, error) {
	s, err := d.take(1)
	if err != nil {
		return 0, err
	}
	var n uint64
	switch s[0] {
	case 0xfd:
		x, err := d.take(2)
		if err != nil {
			return 0, err
		}
		n = uint64(binary.LittleEndian.Uint16(x))
		if n < 0xfd {
			d.minimal = false
		}
	case 0xfe:
		x, err := d.take(4)
		if err != nil {
			return 0, err
		}
		n = uint64(binary.LittleEndian.Uint32(x))
		if n <= 0xffff {
			d.minimal = false
		}
	case 0xff:
		x, err := d.take(8)
		if err != nil {
			return 0, err
		}
		n = binary.LittleEndian.Uint64(x)
		if n <= 0xffffffff {
			d.minimal = false
		}
	default:
		n = uint64(s[0])
	}
	return n, nil
}
func (d *dec) blob() ([]byte, error) {
	n, err := d.vi()
	if err != nil {
		return nil, err
	}
	if n > uint64(len(d.b)-d.p) {
		return nil, ErrShort
	}
	s, err := d.take(int(n))
	if err != nil {
		return nil, err
	}
	return append([]byte(nil), s...), nil
}

// Decode is the reference parser for one transaction at the head of b. It
// returns the transaction, bytes used, whether it was in extended format and
// whether every length prefix was minimally encoded.
func Decode(b []byte) (*RTx, int, bool, bool, error) {
	d := &dec{b: b, minimal: true}
	t := &RTx{}
	var err error
	if t.Version, err = d.u32(); err != nil {
		return nil, d.p, false, false, err
	}
	extended := false
	nin, err := d.vi()
	if err != nil {
		return nil, d.p, false, false, err
	}
	var nout uint64
	haveOut := false
	if nin == 0 {
		if nout, err = d.vi(); err != nil {
			return nil, d.p, false, false, err
		}
		haveOut = true
		if nout == 0 {
			s, err := d.take(4)
			if err != nil {
				return nil, d.p, false, false, err
			}
			if !(s[0] == 0 && s[1] == 0 && s[2] == 0 && s[3] == 0xEF) {
				t.Lock = binary.LittleEndian.Uint32(s)
				return t, d.p, false, d.minimal, nil
			}
			extended = true
			haveOut = false
			if nin, err = d.vi(); err != nil {
				return nil, d.p, true, false, err
			}
		}
	}
	for i := uint64(0); i < nin; i++ {
		var in RIn
		s, err := d.take(32)
		if err != nil {
			return nil, d.p, extended, false, err
		}
		copy(in.TxIDWire[:], s)
		if in.Vout, err = d.u32(); err != nil {
			return nil, d.p, extended, false, err
		}
		if in.Script, err = d.blob(); err != nil {
			return nil, d.p, extended, false, err
		}
		if in.Seq, err = d.u32(); err != nil {
			return nil, d.p, extended, false, err
		}
		if extended {
			if in.PrevSats, err = d.u64(); err != nil {
				return nil, d.p, extended, false, err
			}
			if in.PrevScript, err = d.blob(); err != nil {
				return nil, d.p, extended, false, err
			}
		}
		t.Ins = append(t.Ins, in)
	}
	if !haveOut {
		if nout, err = d.vi(); err != nil {
			return nil, d.p, extended, false, err
		}
	}
	for i := uint64(0); i < nout; i++ {
		var o ROut
		if o.Sats, err = d.u64(); err != nil {
			return nil, d.p, extended, false, err
		}
		if o.Script, err = d.blob(); err != nil {
			return nil, d.p, extended, false, err
		}
		t.Outs = append(t.Outs, o)
	}
	if t.Lock, err = d.u32(); err != nil {
		return nil, d.p, extended, false, err
	}
	return t, d.p, extended, d.minimal, nil
}
