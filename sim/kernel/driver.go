package kernel

import (
	"bufio"
	"encoding/json"
	"flag"
	"fmt"
	"os"
	"os/exec"
	"path/filepath"
	"runtime"
	"runtime/debug"
	"sort"
	"strconv"
	"strings"
	"sync"
	"time"
)

// exit codes
const (
	ExitOK        = 0
	ExitViolation = 1
	ExitTrouble   = 2
	exitHarness   = 70 // worker: panic in harness code
)

// VerifDir is the root of the verification tree.
var VerifDir = "/verif"

// ProcessRuns lets a world ask for short-lived worker processes: after that many runs the worker exits and the
// driver starts a fresh one (lazily initialised process-wide state is cold again).
type ProcessRuns interface{ ProcessRuns() int }

type workerResult struct {
	More       bool        `json:"more"`
	Stats      *Stats      `json:"stats"`
	Violations []foundViol `json:"violations"`
	Done       bool        `json:"done"`
	LastRun    int         `json:"last_run"`
	Early      bool        `json:"stopped_early"`
}

type foundViol struct {
	Replay    string     `json:"replay"`
	Violation *Violation `json:"violation"`
}

// KnownFindings is the committed known-findings file.
type KnownFindings struct {
	Known []struct {
		Property string `json:"property"`
		Class    string `json:"class"` // Violation.Class() prefix match
		What     string `json:"what"`
	} `json:"known"`
	Fixed []string `json:"fixed"`
}

func loadKnown() *KnownFindings {
	k := &KnownFindings{}
	b, err := os.ReadFile(filepath.Join(VerifDir, "known_findings.json"))
	if err == nil {
		_ = json.Unmarshal(b, k)
	}
	return k
}

// Main is the entry point of the verifsim binaries.
func Main() {
	if len(os.Args) < 2 {
		fmt.Fprintln(os.Stderr, "usage: verifsim check|worker|replay|determinism|list ...")
		os.Exit(ExitTrouble)
	}
	switch os.Args[1] {
	case "check":
		os.Exit(cmdCheck(os.Args[2:]))
	case "worker":
		os.Exit(cmdWorker(os.Args[2:]))
	case "replay":
		os.Exit(cmdReplay(os.Args[2:]))
	case "replay-inproc":
		os.Exit(cmdReplayInproc(os.Args[2:]))
	case "determinism":
		os.Exit(cmdDeterminism(os.Args[2:]))
	case "dumplog":
		os.Exit(cmdDumpLog(os.Args[2:]))
	case "list":
		for _, w := range AllWorlds() {
			fmt.Printf("%s %s quick=%d thorough=%d\n", w.Name(), w.ID(), w.Runs("quick"), w.Runs("thorough"))
		}
		os.Exit(0)
	}
	fmt.Fprintln(os.Stderr, "unknown command", os.Args[1])
	os.Exit(ExitTrouble)
}

func envSeed() uint64 {
	if s := os.Getenv("VERIF_SEED"); s != "" {
		if v, err := strconv.ParseUint(s, 10, 64); err == nil {
			return v
		}
		if v, err := strconv.ParseInt(s, 10, 64); err == nil {
			return uint64(v)
		}
	}
	return 1
}

func cmdReplay(args []string) int {
	if len(args) < 1 {
		return ExitTrouble
	}
	// the replay itself runs in a child so that a process death is observable
	self, _ := os.Executable()
	cmd := exec.Command(self, "replay-inproc", args[0])
	var sb strings.Builder
	cmd.Stdout = &sb
	cmd.Stderr = &sb
	_ = cmd.Run()
	out := sb.String()
	fmt.Print(out)
	b, err := os.ReadFile(args[0])
	if err != nil {
		fmt.Println("cannot replay:", err)
		return ExitTrouble
	}
	var rf ReplayFile
	if err := json.Unmarshal(b, &rf); err != nil {
		fmt.Println("cannot replay:", err)
		return ExitTrouble
	}
	switch {
	case strings.Contains(out, "REPLAY-RESULT reproduced"):
		fmt.Printf("VIOLATION property=%s replay=%s\n", rf.Property, args[0])
		return ExitViolation
	case strings.Contains(out, "REPLAY-RESULT not-reproduced"):
		return ExitOK
	case strings.Contains(out, "REPLAY-RESULT trouble"):
		return ExitTrouble
	}
	// no result marker: the replaying process died (or its hang watchdog fired)
	if strings.Contains(out, "VERIF-HANG:") {
		fmt.Println("replaying process hung inside a library call")
	} else {
		fmt.Println("replaying process died (fatal error or exit inside library code)")
	}
	fmt.Printf("VIOLATION property=%s replay=%s\n", rf.Property, args[0])
	return ExitViolation
}

func cmdReplayInproc(args []string) int {
	ok, msg, rf := Replay(args[0])
	if rf == nil {
		fmt.Println("cannot replay:", msg)
		fmt.Println("REPLAY-RESULT trouble")
		return ExitTrouble
	}
	if ok {
		fmt.Println(msg)
		fmt.Println("REPLAY-RESULT reproduced")
		return ExitViolation
	}
	fmt.Println("NOT REPRODUCED:", msg)
	fmt.Println("REPLAY-RESULT not-reproduced")
	return ExitOK
}

// cmdDumpLog prints the verbose event log of runs [from,to) — used by the determinism self-test.
func cmdDumpLog(args []string) int {
	fs := flag.NewFlagSet("dumplog", flag.ExitOnError)
	world := fs.String("world", "", "")
	tier := fs.String("tier", "quick", "")
	seed := fs.Uint64("seed", 1, "")
	from := fs.Int("from", 0, "")
	to := fs.Int("to", 1, "")
	full := fs.Bool("full", false, "")
	_ = fs.Parse(args)
	w, ok := worlds[*world]
	if !ok {
		return ExitTrouble
	}
	setupWorker(w)
	for i := *from; i < *to; i++ {
		st := NewStats()
		c := ExecRun(w, ExecOpts{Tier: *tier, Seed: *seed, RunIdx: i, Verbose: true, Stats: st})
		if *full {
			for _, l := range c.Log {
				fmt.Println(l)
			}
		}
		keys := make([]string, 0, len(st.Counters))
		for k := range st.Counters {
			keys = append(keys, k)
		}
		sort.Strings(keys)
		var sb strings.Builder
		for _, k := range keys {
			fmt.Fprintf(&sb, " %s=%d", k, st.Counters[k])
		}
		v := "-"
		if c.Violation() != nil {
			v = c.Violation().Class()
		}
		fmt.Printf("run=%d loghash=%016x tape=%d execs=%d distinct=%d viol=%s%s\n", i, c.LogHash(), len(c.Used()), st.Execs, len(st.Distinct), v, sb.String())
	}
	return 0
}

func cmdDeterminism(args []string) int {
	fs := flag.NewFlagSet("determinism", flag.ExitOnError)
	n := fs.Int("n", 40, "runs per world")
	only := fs.String("world", "", "")
	from := fs.Int("from", 0, "first run index")
	_ = fs.Parse(args)
	self, _ := os.Executable()
	bad := 0
	for _, w := range AllWorlds() {
		if *only != "" && w.Name() != *only {
			continue
		}
		var outs []string
		for _, gmp := range []string{"1", "4", "16", "1", "4", "16", "2", "8", "16"} {
			cmd := exec.Command(self, "dumplog", "-world", w.Name(), "-seed", fmt.Sprint(envSeed()), "-from", fmt.Sprint(*from), "-to", fmt.Sprint(*from+*n))
			cmd.Env = append(os.Environ(), "GOMAXPROCS="+gmp, "VERIF_FORCE_GOMAXPROCS="+gmp)
			b, err := cmd.Output()
			if err != nil {
				fmt.Printf("determinism: world %s GOMAXPROCS=%s: %v\n", w.Name(), gmp, err)
				return ExitTrouble
			}
			outs = append(outs, string(b))
		}
		same := true
		for _, o := range outs[1:] {
			if o != outs[0] {
				same = false
			}
		}
		if !same {
			bad++
			fmt.Printf("DETERMINISM FAILURE world=%s\n", w.Name())
			a, b := strings.Split(outs[0], "\n"), strings.Split(outs[1], "\n")
			for _, o := range outs[1:] {
				if o != outs[0] {
					b = strings.Split(o, "\n")
					break
				}
			}
			for i := range a {
				if i < len(b) && a[i] != b[i] {
					fmt.Printf("  first difference:\n   %s\n   %s\n", a[i], b[i])
					break
				}
			}
		} else {
			fmt.Printf("determinism ok world=%s runs=%d x9 fresh processes (GOMAXPROCS 1,2,4,8,16)\n", w.Name(), *n)
		}
	}
	if bad > 0 {
		return ExitTrouble
	}
	return 0
}

// WorkerSetup lets a world adjust the worker process (GC off etc.).
type WorkerSetup interface{ SetupWorker() }

// SingleProc is implemented by worlds whose workers must keep GOMAXPROCS=1.
type SingleProc interface{ SingleProc() bool }

// ProcsForShard: workers run with one P (allocation metering, cheap determinism; two Ps made the metered C09 world
// 2.5x slower). VERIF_ODD_SHARD_PROCS=n gives the odd shards of worlds that drive the library sequentially n Ps, for
// experiments; worlds that need library code which only goes parallel when it can (worker pools sized from
// GOMAXPROCS) raise GOMAXPROCS themselves around the calls in question, which replay reproduces by construction. A
// violation's replay file records the value in force and replay uses it.
func ProcsForShard(w World, shard int) int {
	if sp, ok := w.(SingleProc); ok && sp.SingleProc() {
		return 1
	}
	if n, err := strconv.Atoi(os.Getenv("VERIF_ODD_SHARD_PROCS")); err == nil && n > 1 && shard%2 == 1 {
		return n
	}
	return 1
}

func setupWorker(w World) {
	if f := os.Getenv("VERIF_FORCE_GOMAXPROCS"); f != "" {
		if n, err := strconv.Atoi(f); err == nil {
			runtime.GOMAXPROCS(n)
		}
	} else {
		runtime.GOMAXPROCS(1)
	}
	if s, ok := w.(WorkerSetup); ok {
		s.SetupWorker()
	}
	StartHangWatchdog()
}

func cmdWorker(args []string) (code int) {
	fs := flag.NewFlagSet("worker", flag.ExitOnError)
	world := fs.String("world", "", "")
	tier := fs.String("tier", "quick", "")
	seed := fs.Uint64("seed", 1, "")
	shard := fs.Int("shard", 0, "")
	nshards := fs.Int("nshards", 1, "")
	from := fs.Int("from", 0, "first run index to consider")
	only := fs.Int("only", -1, "execute just this run")
	total := fs.Int("total", 0, "")
	out := fs.String("out", "", "")
	journalPath := fs.String("journal", "", "")
	budget := fs.Duration("budget", time.Hour, "")
	_ = fs.Parse(args)
	w, ok := worlds[*world]
	if !ok {
		fmt.Fprintln(os.Stderr, "no such world", *world)
		return ExitTrouble
	}
	setupWorker(w)
	var journal *os.File
	if *journalPath != "" {
		journal, _ = os.OpenFile(*journalPath, os.O_CREATE|os.O_RDWR, 0o644)
	}
	res := &workerResult{Stats: NewStats(), LastRun: -1}
	defer func() {
		if r := recover(); r != nil {
			fmt.Fprintf(os.Stderr, "HARNESS PANIC in world %s: %v\n%s\n", *world, r, debug.Stack())
			code = exitHarness
		}
	}()
	if p := ProcsForShard(w, *shard); p > 1 && os.Getenv("VERIF_FORCE_GOMAXPROCS") == "" {
		runtime.GOMAXPROCS(p)
	}
	start := time.Now()
	classes := map[string]bool{}
	maxRuns := 0
	if pr, ok := w.(ProcessRuns); ok && *only < 0 {
		maxRuns = pr.ProcessRuns()
	}
	done := 0
	for i := *from; i < *total; i++ {
		if *only >= 0 && i != *only {
			continue
		}
		if *only < 0 && i%*nshards != *shard {
			continue
		}
		if time.Since(start) > *budget {
			res.Early = true
			break
		}
		if maxRuns > 0 && done >= maxRuns {
			res.More = true
			break
		}
		done++
		o := ExecOpts{Tier: *tier, Seed: *seed, RunIdx: i, Stats: res.Stats, Journal: journal}
		c := ExecRun(w, o)
		res.LastRun = i
		if v := c.Violation(); v != nil && !classes[v.Class()] {
			classes[v.Class()] = true
			o.Stats = nil
			// first the unshrunk replay, made durable, so that a shrink candidate that kills the
			// process (e.g. a huge allocation) costs only the minimisation, not the finding
			path, rf := WriteReplay(w, o, c, false)
			res.Violations = append(res.Violations, foundViol{Replay: path, Violation: rf.Violation})
			flush(res, *out)
			if journal != nil {
				slot := fmt.Sprintf("run=%d shrinking=1", i)
				b := []byte(fmt.Sprintf("%-127s\n", slot))
				_, _ = journal.WriteAt(b, 0)
			}
			path, rf = WriteReplay(w, o, c, true)
			res.Violations[len(res.Violations)-1] = foundViol{Replay: path, Violation: rf.Violation}
			if len(res.Violations) >= 4 {
				res.Early = true
				break
			}
		}
	}
	res.Done = true
	if err := flush(res, *out); err != nil {
		return ExitTrouble
	}
	return 0
}

func flush(res *workerResult, out string) error {
	res.Stats.DistinctList = make([]uint64, 0, len(res.Stats.Distinct))
	for h := range res.Stats.Distinct {
		res.Stats.DistinctList = append(res.Stats.DistinctList, h)
	}
	sort.Slice(res.Stats.DistinctList, func(i, j int) bool { return res.Stats.DistinctList[i] < res.Stats.DistinctList[j] })
	b, _ := json.Marshal(res)
	return os.WriteFile(out, b, 0o644)
}

type checkOutcome struct {
	stats        *Stats
	viols        []foundViol
	trouble      []string
	early        bool
	crashes      int
	seeds        []uint64
	shrinkDeaths int
	wallByWorld  map[string]float64
}

func init() {
	if d := os.Getenv("VERIF_REPLAY_DIR"); d != "" {
		ReplayDir = d
	}
}

func cmdCheck(args []string) int {
	fs := flag.NewFlagSet("check", flag.ExitOnError)
	prop := fs.String("prop", "", "")
	tier := fs.String("tier", "quick", "")
	workers := fs.Int("workers", 0, "")
	runsOverride := fs.Int("runs", 0, "")
	budget := fs.Duration("budget", 0, "")
	noEvidence := fs.Bool("no-evidence", false, "")
	_ = fs.Parse(args)
	if t := os.Getenv("VERIF_TIER"); t != "" && *tier == "" {
		*tier = t
	}
	ws := WorldsFor(*prop)
	if len(ws) == 0 {
		fmt.Fprintln(os.Stderr, "no world for", *prop)
		return ExitTrouble
	}
	seed := envSeed()
	fmt.Printf("VERIF_SEED=%d property=%s tier=%s\n", seed, *prop, *tier)
	nw := *workers
	if v, err := strconv.Atoi(os.Getenv("VERIF_WORKERS")); err == nil && v > 0 && nw <= 0 {
		nw = v
	}
	if nw <= 0 {
		nw = runtime.NumCPU()
		if nw > 16 {
			nw = 16
		}
	}
	if *budget == 0 {
		if *tier == "thorough" {
			*budget = 40 * time.Minute
		} else {
			*budget = 150 * time.Second
		}
	}
	start := time.Now()
	oc := &checkOutcome{stats: NewStats(), wallByWorld: map[string]float64{}}
	perWorldBudget := *budget / time.Duration(len(ws))
	seeds := []uint64{seed}
	if *tier == "thorough" {
		seeds = []uint64{seed, seed + 1000003, seed + 2000003}
	}
	oc.seeds = seeds
	for _, w := range ws {
		t0 := time.Now()
		total := w.Runs(*tier)
		if *runsOverride > 0 {
			total = *runsOverride
		}
		for _, sd := range seeds {
			runWorld(w, *tier, sd, total/len(seeds), nw, perWorldBudget/time.Duration(len(seeds)), oc)
		}
		oc.wallByWorld[w.Name()] = time.Since(t0).Seconds()
	}
	wall := time.Since(start).Seconds()
	known := loadKnown()
	code := ExitOK
	// de-duplicate by class
	sort.Slice(oc.viols, func(i, j int) bool { return oc.viols[i].Replay < oc.viols[j].Replay })
	seen := map[string]bool{}
	nviol := 0
	for _, fv := range oc.viols {
		cl := fv.Violation.Class()
		if seen[cl] {
			continue
		}
		seen[cl] = true
		isKnown := false
		for _, k := range known.Known {
			if k.Property == fv.Violation.Property && strings.HasPrefix(cl, k.Class) {
				fmt.Printf("KNOWN-FINDING: property=%s %s (class %s, replay %s)\n", k.Property, k.What, cl, fv.Replay)
				isKnown = true
				break
			}
		}
		if isKnown {
			continue
		}
		nviol++
		fmt.Printf("  %s: %s\n", cl, fv.Violation.Msg)
		fmt.Printf("VIOLATION property=%s replay=%s\n", fv.Violation.Property, fv.Replay)
		code = ExitViolation
	}
	for _, t := range oc.trouble {
		fmt.Println("TROUBLE:", t)
	}
	if len(oc.trouble) > 0 && code == ExitOK {
		code = ExitTrouble
	}
	if !*noEvidence {
		if err := writeEvidence(*prop, *tier, seed, ws, oc, wall, nviol); err != nil {
			fmt.Println("TROUBLE: evidence:", err)
			if code == ExitOK {
				code = ExitTrouble
			}
		}
	}
	fmt.Printf("property=%s tier=%s runs=%d execs=%d distinct=%d violations=%d wall=%.1fs early=%v\n",
		*prop, *tier, oc.stats.Runs, oc.stats.Execs, len(oc.stats.Distinct), nviol, wall, oc.early)
	return code
}

func runWorld(w World, tier string, seed uint64, total, nw int, budget time.Duration, oc *checkOutcome) {
	self, _ := os.Executable()
	tmp, err := os.MkdirTemp("", "verifsim-"+w.Name()+"-")
	if err != nil {
		oc.trouble = append(oc.trouble, err.Error())
		return
	}
	defer os.RemoveAll(tmp)
	if nw > total {
		nw = total
	}
	if nw < 1 {
		nw = 1
	}
	var mu sync.Mutex
	var wg sync.WaitGroup
	deadline := time.Now().Add(budget)
	for s := 0; s < nw; s++ {
		wg.Add(1)
		go func(shard int) {
			defer wg.Done()
			from := 0
			for attempt := 0; attempt < 50; attempt++ {
				out := filepath.Join(tmp, fmt.Sprintf("out-%d-%d.json", shard, attempt))
				jr := filepath.Join(tmp, fmt.Sprintf("journal-%d", shard))
				_ = os.Remove(jr)
				left := time.Until(deadline)
				if left < time.Second {
					mu.Lock()
					oc.early = true
					mu.Unlock()
					return
				}
				cmd := exec.Command(self, "worker", "-world", w.Name(), "-tier", tier, "-seed", fmt.Sprint(seed),
					"-shard", fmt.Sprint(shard), "-nshards", fmt.Sprint(nw), "-from", fmt.Sprint(from), "-total", fmt.Sprint(total),
					"-out", out, "-journal", jr, "-budget", left.String())
				var stderr strings.Builder
				cmd.Stderr = &stderr
				cmd.Stdout = &stderr
				errRun := cmd.Run()
				b, rerr := os.ReadFile(out)
				if errRun == nil && rerr == nil {
					var res workerResult
					if json.Unmarshal(b, &res) == nil && res.Done {
						mu.Lock()
						oc.stats.Merge(res.Stats)
						oc.viols = append(oc.viols, res.Violations...)
						if res.Early {
							oc.early = true
						}
						mu.Unlock()
						if res.More && !res.Early {
							from = res.LastRun + 1
							attempt = 0
							continue
						}
						return
					}
				}
				if ee, ok := errRun.(*exec.ExitError); ok && ee.ExitCode() == exitHarness {
					mu.Lock()
					oc.trouble = append(oc.trouble, "harness panic: "+tail(stderr.String(), 1500))
					mu.Unlock()
					return
				}
				// the worker died: which run?
				slot := readJournal(jr)
				runIdx, focus := parseSlot(slot)
				if runIdx < 0 {
					mu.Lock()
					oc.trouble = append(oc.trouble, fmt.Sprintf("worker %d died without journal: %v: %s", shard, errRun, tail(stderr.String(), 800)))
					mu.Unlock()
					return
				}
				if _, shr := focus["shrinking"]; shr {
					// died while minimising an already recorded violation: keep the partial result
					var res workerResult
					if rerr == nil && json.Unmarshal(b, &res) == nil {
						mu.Lock()
						oc.stats.Merge(res.Stats)
						oc.viols = append(oc.viols, res.Violations...)
						oc.shrinkDeaths++
						mu.Unlock()
					}
					from = runIdx + 1
					continue
				}
				confirmed, msg := confirmCrash(self, w, tier, seed, runIdx, focus, tmp, ProcsForShard(w, shard))
				mu.Lock()
				oc.crashes++
				if confirmed {
					v := &Violation{Property: w.ID(), Oracle: "process-death", Site: firstLine(msg), Msg: "worker process died (fatal runtime error / exit inside library code): " + tail(msg, 600), Focus: focus}
					if strings.Contains(msg, "VERIF-HANG:") {
						v = &Violation{Property: w.ID(), Oracle: "hang", Site: "library call does not return", Msg: fmt.Sprintf("a library call did not return within %v, twice (in the worker and in a fresh process replaying the same run): %s", HangLimit(), tail(head(msg, 2500), 2500)), Focus: focus}
					}
					rf := &ReplayFile{Property: w.ID(), World: w.Name(), Tier: tier, Seed: seed, Run: runIdx, Focus: focus, FromSeed: true, Violation: v, Procs: ProcsForShard(w, shard),
						Trace: []string{"process died; stderr tail:", tail(msg, 1500)}}
					_ = os.MkdirAll(ReplayDir, 0o755)
					path := filepath.Join(ReplayDir, fmt.Sprintf("%s-%s-s%d-r%d-crash.json", w.ID(), w.Name(), seed, runIdx))
					jb, _ := json.MarshalIndent(rf, "", " ")
					_ = os.WriteFile(path, jb, 0o644)
					oc.viols = append(oc.viols, foundViol{Replay: path, Violation: v})
				} else {
					oc.trouble = append(oc.trouble, fmt.Sprintf("worker %d died at run %d but the death did not reproduce: %s", shard, runIdx, tail(stderr.String(), 800)))
				}
				mu.Unlock()
				if !confirmed {
					return
				}
				from = runIdx + 1
			}
		}(s)
	}
	wg.Wait()
}

func confirmCrash(self string, w World, tier string, seed uint64, runIdx int, focus map[string]int, tmp string, procs int) (bool, string) {
	rf := &ReplayFile{Property: w.ID(), World: w.Name(), Tier: tier, Seed: seed, Run: runIdx, Focus: focus, FromSeed: true, Procs: procs}
	p := filepath.Join(tmp, fmt.Sprintf("crash-%d.json", runIdx))
	b, _ := json.Marshal(rf)
	_ = os.WriteFile(p, b, 0o644)
	cmd := exec.Command(self, "replay-inproc", p)
	var sb strings.Builder
	cmd.Stderr = &sb
	cmd.Stdout = &sb
	_ = cmd.Run()
	if !strings.Contains(sb.String(), "REPLAY-RESULT") {
		return true, sb.String()
	}
	return false, sb.String()
}

func firstLine(s string) string {
	for _, l := range strings.Split(s, "\n") {
		l = strings.TrimSpace(l)
		if strings.HasPrefix(l, "fatal error:") || strings.HasPrefix(l, "panic:") || strings.HasPrefix(l, "runtime:") {
			if len(l) > 80 {
				l = l[:80]
			}
			return l
		}
	}
	return "exit"
}

func head(s string, n int) string {
	if i := strings.Index(s, "VERIF-HANG:"); i >= 0 {
		s = s[i:]
	}
	if len(s) > n {
		return s[:n] + "..."
	}
	return s
}

func tail(s string, n int) string {
	if len(s) > n {
		return "..." + s[len(s)-n:]
	}
	return s
}

func readJournal(p string) string {
	f, err := os.Open(p)
	if err != nil {
		return ""
	}
	defer f.Close()
	r := bufio.NewReader(f)
	l, _ := r.ReadString('\n')
	return strings.TrimSpace(l)
}

func parseSlot(s string) (int, map[string]int) {
	run := -1
	var focus map[string]int
	for _, f := range strings.Fields(s) {
		kv := strings.SplitN(f, "=", 2)
		if len(kv) != 2 {
			continue
		}
		n, err := strconv.Atoi(kv[1])
		if err != nil {
			continue
		}
		if kv[0] == "run" {
			run = n
		} else {
			if focus == nil {
				focus = map[string]int{}
			}
			focus[kv[0]] = n
		}
	}
	return run, focus
}

func writeEvidence(prop, tier string, seed uint64, ws []World, oc *checkOutcome, wall float64, nviol int) error {
	info := ws[0].Info()
	rules := []string{}
	var real, stub, assume []string
	simNote := ""
	for _, w := range ws {
		i := w.Info()
		rules = append(rules, w.Name()+": "+i.Rule)
		real = append(real, i.Real...)
		stub = append(stub, i.Stub...)
		assume = append(assume, i.Assumptions...)
		if i.SimTimeNote != "" {
			simNote += i.SimTimeNote + " "
		}
	}
	faults := map[string]int64{}
	probes := map[string]int64{}
	other := map[string]int64{}
	for k, v := range oc.stats.Counters {
		switch {
		case strings.HasPrefix(k, "fault."):
			faults[strings.TrimPrefix(k, "fault.")] = v
		case strings.HasPrefix(k, "probe."):
			probes[strings.TrimPrefix(k, "probe.")] = v
		default:
			other[k] = v
		}
	}
	samples := oc.stats.Samples
	if len(samples) == 0 {
		samples = []interface{}{"(no sample recorded)"}
	}
	hours := wall / 3600
	if hours <= 0 {
		hours = 1e-9
	}
	cov := map[string]interface{}{
		"evaluations":            oc.stats.Execs,
		"distinct_nontrivial":    len(oc.stats.Distinct),
		"rule":                   strings.Join(rules, " || "),
		"samples":                samples,
		"exhaustive":             false,
		"simulated_runs":         oc.stats.Runs,
		"seeds":                  []uint64{seed},
		"runs_per_hour":          int64(float64(oc.stats.Runs) / hours),
		"executions_per_hour":    int64(float64(oc.stats.Execs) / hours),
		"simulated_time_s":       float64(oc.stats.SimNanos) / 1e9,
		"simulated_time_note":    strings.TrimSpace(simNote),
		"faults_fired":           faults,
		"probes_hit":             probes,
		"counters":               other,
		"worker_deaths":          oc.crashes,
		"deaths_while_shrinking": oc.shrinkDeaths,
		"inconclusive_unknown":   oc.stats.Unknown,
		"components_real":        real,
		"components_stub":        stub,
		"budget_stopped_early":   oc.early,
		"wall_s_by_world":        oc.wallByWorld,
	}
	ev := map[string]interface{}{
		"property_id": prop,
		"tier":        tier,
		"seed":        int64(seed),
		"level":       info.Level,
		"coverage":    cov,
		"assumptions": assume,
		"wall_s":      wall,
		"violations":  nviol,
	}
	if oc.stats.Execs < 1 || len(oc.stats.Distinct) < 2 {
		return fmt.Errorf("coverage too small to be evidence (execs=%d distinct=%d)", oc.stats.Execs, len(oc.stats.Distinct))
	}
	for name, v := range probes {
		if v == 0 {
			fmt.Printf("WARNING probe=%s hits=0\n", name)
		}
	}
	b, err := json.MarshalIndent(ev, "", " ")
	if err != nil {
		return err
	}
	dir := filepath.Join(VerifDir, "evidence")
	_ = os.MkdirAll(dir, 0o755)
	return os.WriteFile(filepath.Join(dir, prop+".json"), b, 0o644)
}
