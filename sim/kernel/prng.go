// Package kernel is the deterministic-simulation kernel: one PRNG, one choice
// tape, run context, shrinker, driver/worker process model and evidence.
package kernel

// SplitMix64 step; used to derive per-run seeds and to seed xoshiro.
func SplitMix64(x *uint64) uint64 {
	*x += 0x9e3779b97f4a7c15
	z := *x
	z = (z ^ (z >> 30)) * 0xbf58476d1ce4e5b9
	z = (z ^ (z >> 27)) * 0x94d049bb133111eb
	return z ^ (z >> 31)
}

// Mix derives a run seed from the user seed, a property tag and a run index.
func Mix(seed uint64, tag string, run uint64) uint64 {
	h := seed ^ 0x6a09e667f3bcc909
	for i := 0; i < len(tag); i++ {
		h = (h ^ uint64(tag[i])) * 0x100000001b3
	}
	s := h ^ (run+1)*0xd6e8feb86659fd93
	a := SplitMix64(&s)
	b := SplitMix64(&s)
	return a ^ (b << 1)
}

// Xoshiro is xoshiro256**.
type Xoshiro struct{ s [4]uint64 }

// NewXoshiro seeds the generator through SplitMix64 as its authors recommend.
func NewXoshiro(seed uint64) *Xoshiro {
	x := &Xoshiro{}
	for i := range x.s {
		x.s[i] = SplitMix64(&seed)
	}
	return x
}

func rotl(x uint64, k uint) uint64 { return (x << k) | (x >> (64 - k)) }

// Next returns the next 64 random bits.
func (x *Xoshiro) Next() uint64 {
	r := rotl(x.s[1]*5, 7) * 9
	t := x.s[1] << 17
	x.s[2] ^= x.s[0]
	x.s[3] ^= x.s[1]
	x.s[1] ^= x.s[2]
	x.s[0] ^= x.s[3]
	x.s[2] ^= t
	x.s[3] = rotl(x.s[3], 45)
	return r
}

// Below returns a uniform value in [0,n), n>0 (Lemire-free simple rejection).
func (x *Xoshiro) Below(n uint64) uint64 {
	if n == 0 {
		return 0
	}
	if n&(n-1) == 0 {
		return x.Next() & (n - 1)
	}
	lim := ^uint64(0) - (^uint64(0))%n
	for {
		v := x.Next()
		if v < lim {
			return v % n
		}
	}
}

// FNV64 hashes a string (used for distinct-history measures and log hashes).
func FNV64(h uint64, s string) uint64 {
	if h == 0 {
		h = 0xcbf29ce484222325
	}
	for i := 0; i < len(s); i++ {
		h = (h ^ uint64(s[i])) * 0x100000001b3
	}
	return h
}

// FNV64b hashes bytes.
func FNV64b(h uint64, b []byte) uint64 {
	if h == 0 {
		h = 0xcbf29ce484222325
	}
	for _, c := range b {
		h = (h ^ uint64(c)) * 0x100000001b3
	}
	return h
}
