package kernel

import (
	"errors"
	"fmt"
	"io"
)

// ErrInjected is the non-EOF reader failure the simulator injects.
var ErrInjected error = &injectedError{}

// injectedError describes itself the way a connection past its read deadline does: temporary, a timeout — and it
// keeps coming back on every further Read. A decoder that retries "temporary" errors without a bound never returns.
type injectedError struct{}

func (*injectedError) Error() string   { return "verif: injected reader failure" }
func (*injectedError) Temporary() bool { return true }
func (*injectedError) Timeout() bool   { return true }

// Plan is a delivery schedule for a simulated stream: two tape values decide
// it completely (kind + the seed of a private fragment-size generator), so a
// plan is replayable and shrinkable without one tape entry per Read call.
type Plan struct {
	Kind    int // 0 whole, 1 one byte at a time, 2 small random, 3 mixed random, 4 exactly-as-asked-minus-one, 5 big-then-small
	Seed    uint64
	Zeros   bool // sprinkle (0,nil) reads, at most two in a row
	EOFWith bool // deliver the final bytes together with io.EOF
}

// PlanNames for logs.
var PlanNames = []string{"whole", "1byte", "small", "mixed", "ask-1", "bigsmall"}

func (p Plan) String() string {
	return fmt.Sprintf("%s/z=%v/eofwith=%v/%x", PlanNames[p.Kind], p.Zeros, p.EOFWith, p.Seed&0xffff)
}

// DrawPlan draws a plan from the tape.
func DrawPlan(t *Tape) Plan {
	t.Begin("plan")
	defer t.End()
	return Plan{Kind: t.Pick(3, 3, 3, 3, 2, 2), Seed: t.U64n(1 << 32), Zeros: t.Bool(1, 4), EOFWith: t.Bool(1, 2)}
}

// Stream is the simulated byte stream handed to decoders as an io.Reader.
type Stream struct {
	data []byte
	pos  int
	plan Plan
	rng  *Xoshiro
	// faults
	TruncAt int  // -1: none; stream ends (EOF) after this many bytes
	ErrAt   int  // -1: none; ErrInjected once pos reaches this offset
	ErrWith bool // deliver bytes up to ErrAt together with the error in one call
	// accounting
	Supplied int // bytes actually handed out
	Reads    int
	zeroRun  int
	ErrFired bool
	EOFSeen  bool
	MaxReads int // liveness bound; exceeded => panic with ErrReadBudget
}

// ErrReadBudget is the panic value when a decoder keeps calling Read.
var ErrReadBudget = errors.New("verif: read-call budget exceeded")

// NewStream builds a stream over data with a plan and no faults.
func NewStream(data []byte, plan Plan) *Stream {
	return &Stream{data: data, plan: plan, rng: NewXoshiro(plan.Seed ^ 0x5151), TruncAt: -1, ErrAt: -1, MaxReads: 4*len(data) + 256}
}

func (s *Stream) end() int {
	if s.TruncAt >= 0 && s.TruncAt < len(s.data) {
		return s.TruncAt
	}
	return len(s.data)
}

// Pos is the current offset.
func (s *Stream) Pos() int { return s.pos }

// Read implements io.Reader under the delivery plan and fault plan.
func (s *Stream) Read(p []byte) (int, error) {
	s.Reads++
	if s.Reads > s.MaxReads {
		panic(ErrReadBudget)
	}
	if len(p) == 0 {
		return 0, nil
	}
	end := s.end()
	if s.ErrAt >= 0 && s.ErrAt < end {
		end = s.ErrAt
	}
	if s.pos >= end {
		if s.ErrAt >= 0 && s.pos >= s.ErrAt && s.ErrAt <= s.end() {
			s.ErrFired = true
			return 0, ErrInjected
		}
		s.EOFSeen = true
		return 0, io.EOF
	}
	if s.plan.Zeros && s.zeroRun < 2 && s.rng.Below(5) == 0 {
		s.zeroRun++
		return 0, nil
	}
	s.zeroRun = 0
	want := len(p)
	avail := end - s.pos
	n := want
	switch s.plan.Kind {
	case 0:
	case 1:
		n = 1
	case 2:
		n = 1 + int(s.rng.Below(7))
	case 3:
		switch s.rng.Below(4) {
		case 0:
			n = 1
		case 1:
			n = 1 + int(s.rng.Below(16))
		case 2:
			n = 1 + int(s.rng.Below(uint64(want)))
		}
	case 4:
		if want > 1 {
			n = want - 1
		}
	case 5:
		if s.Reads%2 == 0 {
			n = 1 + int(s.rng.Below(3))
		}
	}
	if n > want {
		n = want
	}
	if n > avail {
		n = avail
	}
	copy(p, s.data[s.pos:s.pos+n])
	s.pos += n
	s.Supplied += n
	if s.pos == end {
		if s.ErrAt >= 0 && s.ErrAt == end && s.ErrAt <= s.end() {
			if s.ErrWith {
				s.ErrFired = true
				return n, ErrInjected
			}
		} else if s.plan.EOFWith {
			s.EOFSeen = true
			return n, io.EOF
		}
	}
	return n, nil
}
