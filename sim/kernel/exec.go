package kernel

import (
	"encoding/json"
	"fmt"
	"os"
	"path/filepath"
	"runtime"
	"sort"
	"time"
)

// ExecOpts selects how one run is executed.
type ExecOpts struct {
	Tier    string
	Seed    uint64
	RunIdx  int
	Tape    []uint64       // nil: generate from seed
	Focus   map[string]int // nil: enumerate everything
	Verbose bool
	Stats   *Stats
	Journal *os.File
}

// ExecRun executes one run of a world. A panic escaping the world is a harness
// bug (library panics are recovered inside the worlds) and is re-raised.
func ExecRun(w World, o ExecOpts) *RunCtx {
	st := o.Stats
	if st == nil {
		st = NewStats()
	}
	var t *Tape
	if o.Tape != nil {
		t = NewReplayTape(o.Tape)
	} else {
		t = NewGenTape(Mix(o.Seed, w.Name(), uint64(o.RunIdx)))
	}
	c := &RunCtx{Tape: t, Prop: w.ID(), World: w.Name(), Tier: o.Tier, Seed: o.Seed, RunIdx: o.RunIdx,
		Stats: st, Verbose: o.Verbose, focus: o.Focus, journal: o.Journal}
	c.note()
	c.Logf("run world=%s seed=%d run=%d mode=%s", w.Name(), o.Seed, o.RunIdx, map[bool]string{true: "replay", false: "generate"}[o.Tape != nil])
	w.Run(c)
	st.Runs++
	return c
}

// ReplayFile is what a violation is reported as.
type ReplayFile struct {
	Property    string         `json:"property"`
	World       string         `json:"world"`
	Tier        string         `json:"tier"`
	Seed        uint64         `json:"seed"`
	Run         int            `json:"run"`
	Focus       map[string]int `json:"focus,omitempty"`
	Tape        []uint64       `json:"tape"`
	FromSeed    bool           `json:"from_seed,omitempty"` // tape empty: regenerate from seed (crash class)
	OrigTapeLen int            `json:"original_tape_len"`
	ShrinkExecs int            `json:"shrink_execs"`
	Violation   *Violation     `json:"violation"`
	LogHash     string         `json:"log_hash"`
	Trace       []string       `json:"trace"`
	Procs       int            `json:"gomaxprocs,omitempty"` // GOMAXPROCS of the process that found it (replay uses the same)
}

// Shrink minimises a failing tape while the violation class persists.
func Shrink(w World, o ExecOpts, tape []uint64, focus map[string]int, class string, budget int, deadline time.Time) ([]uint64, int) {
	execs := 0
	try := func(cand []uint64) ([]uint64, []Span, bool) {
		if execs >= budget || time.Now().After(deadline) {
			return nil, nil, false
		}
		execs++
		oo := o
		oo.Tape = cand
		if oo.Tape == nil {
			oo.Tape = []uint64{}
		}
		oo.Focus = focus
		oo.Verbose = false
		oo.Stats = NewStats()
		oo.Journal = nil
		c := ExecRun(w, oo)
		if c.viol != nil && c.viol.Class() == class {
			return c.Used(), c.closedSpans(), true
		}
		return nil, nil, false
	}
	cur, spans, ok := try(tape)
	if !ok {
		return tape, execs
	}
	for pass := 0; pass < 8; pass++ {
		progress := false
		// 1. delete whole labelled blocks, largest first
		sort.SliceStable(spans, func(i, j int) bool { return spans[i].End-spans[i].Start > spans[j].End-spans[j].Start })
	blocks:
		for tries := 0; tries < 400; tries++ {
			for _, s := range spans {
				if s.End > len(cur) || s.Start >= s.End {
					continue
				}
				cand := append(append([]uint64(nil), cur[:s.Start]...), cur[s.End:]...)
				if nc, ns, ok := try(cand); ok && len(nc) < len(cur) {
					cur, spans = nc, ns
					sort.SliceStable(spans, func(i, j int) bool { return spans[i].End-spans[i].Start > spans[j].End-spans[j].Start })
					progress = true
					continue blocks
				}
			}
			break
		}
		// 2. truncate the tail (later choices become "simplest")
		for n := len(cur) / 2; n >= 1; n /= 2 {
			for len(cur) > n {
				cand := append([]uint64(nil), cur[:len(cur)-n]...)
				if nc, ns, ok := try(cand); ok && len(nc) < len(cur) {
					cur, spans = nc, ns
					progress = true
				} else {
					break
				}
			}
		}
		// 3. simplify single values
		for i := 0; i < len(cur); i++ {
			if cur[i] == 0 {
				continue
			}
			for _, nv := range []uint64{0, cur[i] / 2, cur[i] - 1} {
				if nv >= cur[i] {
					continue
				}
				cand := append([]uint64(nil), cur...)
				cand[i] = nv
				if nc, ns, ok := try(cand); ok {
					cur, spans = nc, ns
					progress = true
					break
				}
			}
			if i >= len(cur) {
				break
			}
		}
		if !progress || execs >= budget || time.Now().After(deadline) {
			break
		}
	}
	return cur, execs
}

// ReplayDir is where replay files go.
var ReplayDir = "/verif/replays"

// WriteReplay shrinks (unless crash) and writes the replay file for a failed run.
func WriteReplay(w World, o ExecOpts, c *RunCtx, shrink bool) (string, *ReplayFile) {
	v := c.Violation()
	tape := c.Used()
	rf := &ReplayFile{Property: v.Property, World: w.Name(), Tier: o.Tier, Seed: o.Seed, Run: o.RunIdx,
		Focus: v.Focus, OrigTapeLen: len(tape), Procs: runtime.GOMAXPROCS(0)}
	if shrink {
		tape, rf.ShrinkExecs = Shrink(w, o, tape, v.Focus, v.Class(), 2000, time.Now().Add(45*time.Second))
	}
	// final verbose execution of the minimised tape gives the trace and hash
	oo := o
	oo.Tape, oo.Focus, oo.Verbose, oo.Stats, oo.Journal = tape, v.Focus, true, NewStats(), nil
	if oo.Tape == nil {
		oo.Tape = []uint64{}
	}
	fc := ExecRun(w, oo)
	if fc.Violation() != nil && fc.Violation().Class() == v.Class() {
		rf.Violation = fc.Violation()
	} else {
		// should not happen: fall back to the original tape
		tape = c.Used()
		oo.Tape = tape
		fc = ExecRun(w, oo)
		rf.Violation = v
	}
	rf.Tape = tape
	rf.LogHash = fmt.Sprintf("%016x", fc.LogHash())
	rf.Trace = fc.Log
	_ = os.MkdirAll(ReplayDir, 0o755)
	path := filepath.Join(ReplayDir, fmt.Sprintf("%s-%s-s%d-r%d.json", v.Property, w.Name(), o.Seed, o.RunIdx))
	b, _ := json.MarshalIndent(rf, "", " ")
	_ = os.WriteFile(path, b, 0o644)
	return path, rf
}

// Replay re-executes a replay file; returns (reproduced, message).
func Replay(path string) (bool, string, *ReplayFile) {
	b, err := os.ReadFile(path)
	if err != nil {
		return false, err.Error(), nil
	}
	var rf ReplayFile
	if err := json.Unmarshal(b, &rf); err != nil {
		return false, err.Error(), nil
	}
	w, ok := worlds[rf.World]
	if !ok {
		return false, "world " + rf.World + " not in this binary", &rf
	}
	setupWorker(w)
	if rf.Procs > 0 && os.Getenv("VERIF_FORCE_GOMAXPROCS") == "" {
		runtime.GOMAXPROCS(rf.Procs)
	}
	o := ExecOpts{Tier: rf.Tier, Seed: rf.Seed, RunIdx: rf.Run, Tape: rf.Tape, Focus: rf.Focus, Verbose: true}
	if rf.FromSeed {
		o.Tape = nil
	} else if o.Tape == nil {
		o.Tape = []uint64{}
	}
	c := ExecRun(w, o)
	for _, l := range c.Log {
		fmt.Println("  " + l)
	}
	if c.Violation() == nil {
		return false, "no violation on replay", &rf
	}
	if rf.Violation != nil && c.Violation().Class() != rf.Violation.Class() {
		return false, "different violation class: " + c.Violation().Class(), &rf
	}
	h := fmt.Sprintf("%016x", c.LogHash())
	if rf.LogHash != "" && h != rf.LogHash {
		return true, "reproduced (same class) but event-log hash differs: " + h + " vs " + rf.LogHash, &rf
	}
	return true, "reproduced exactly (class and event-log hash match): " + c.Violation().Msg, &rf
}
