package kernel

// Tape is the choice tape: every decision of a run is one bounded integer
// appended here. In generate mode values come from the run's PRNG; in replay
// mode they are read back (past the end: 0, the simplest choice). A run is a
// pure function of (tape, focus, code under test).
type Tape struct {
	Vals   []uint64
	pos    int
	replay bool
	rng    *Xoshiro
	// Spans are labelled blocks recorded during the last execution; the
	// shrinker deletes whole blocks first.
	Spans []Span
	open  []int
}

// Span is a half-open block [Start,End) of tape positions.
type Span struct {
	Start, End int
	Label      string
}

// NewGenTape makes a generating tape from a run seed.
func NewGenTape(seed uint64) *Tape { return &Tape{rng: NewXoshiro(seed)} }

// NewReplayTape makes a replaying tape.
func NewReplayTape(vals []uint64) *Tape {
	return &Tape{Vals: append([]uint64(nil), vals...), replay: true}
}

// Used returns the values consumed so far (the effective tape of the run).
func (t *Tape) Used() []uint64 {
	if t.replay {
		n := t.pos
		if n > len(t.Vals) {
			n = len(t.Vals)
		}
		return append([]uint64(nil), t.Vals[:n]...)
	}
	return append([]uint64(nil), t.Vals...)
}

// Pos is the number of choices made so far.
func (t *Tape) Pos() int { return t.pos }

// U64n returns a choice in [0,n). n==0 means the full 64-bit range.
func (t *Tape) U64n(n uint64) uint64 {
	var v uint64
	if t.replay {
		if t.pos < len(t.Vals) {
			v = t.Vals[t.pos]
		}
		if n != 0 && v >= n {
			v %= n
		}
	} else {
		if n == 0 {
			v = t.rng.Next()
		} else {
			v = t.rng.Below(n)
		}
		t.Vals = append(t.Vals, v)
	}
	t.pos++
	return v
}

// Choose returns a choice in [0,n), n>=1.
func (t *Tape) Choose(n int) int {
	if n <= 1 {
		// still consumes a slot so that tape structure does not depend on n
		t.U64n(1)
		return 0
	}
	return int(t.U64n(uint64(n)))
}

// Range returns a choice in [lo,hi] inclusive.
func (t *Tape) Range(lo, hi int) int {
	if hi <= lo {
		t.U64n(1)
		return lo
	}
	return lo + int(t.U64n(uint64(hi-lo+1)))
}

// Bool is true with probability num/den; 0 on the tape means false.
func (t *Tape) Bool(num, den int) bool {
	return int(t.U64n(uint64(den))) >= den-num
}

// Pick chooses an index by integer weights; index 0 is the "simplest".
func (t *Tape) Pick(weights ...int) int {
	tot := 0
	for _, w := range weights {
		tot += w
	}
	if tot <= 0 {
		t.U64n(1)
		return 0
	}
	v := int(t.U64n(uint64(tot)))
	for i, w := range weights {
		if v < w {
			return i
		}
		v -= w
	}
	return len(weights) - 1
}

// Bytes fills n bytes from the tape (8 bytes per slot).
func (t *Tape) Bytes(n int) []byte {
	out := make([]byte, n)
	for i := 0; i < n; i += 8 {
		v := t.U64n(0)
		for j := 0; j < 8 && i+j < n; j++ {
			out[i+j] = byte(v >> (8 * uint(j)))
		}
	}
	return out
}

// Begin opens a labelled block.
func (t *Tape) Begin(label string) {
	t.open = append(t.open, len(t.Spans))
	t.Spans = append(t.Spans, Span{Start: t.pos, End: -1, Label: label})
}

// End closes the innermost open block.
func (t *Tape) End() {
	if len(t.open) == 0 {
		return
	}
	i := t.open[len(t.open)-1]
	t.open = t.open[:len(t.open)-1]
	t.Spans[i].End = t.pos
}

func (t *Tape) closedSpans() []Span {
	var out []Span
	for _, s := range t.Spans {
		e := s.End
		if e < 0 {
			e = t.pos
		}
		if e > s.Start {
			out = append(out, Span{s.Start, e, s.Label})
		}
	}
	return out
}
