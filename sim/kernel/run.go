package kernel

import (
	"fmt"
	"os"
	"runtime"
	"sort"
	"strconv"
	"strings"
	"sync"
	"sync/atomic"
	"time"
)

// Violation is the first oracle failure of a run.
type Violation struct {
	Property string         `json:"property"`
	Oracle   string         `json:"oracle"` // stable class id used by the shrinker and known-findings
	Msg      string         `json:"msg"`
	Site     string         `json:"site,omitempty"` // stable key of the failing call site / input class
	Focus    map[string]int `json:"focus,omitempty"`
}

// Class is what must persist while shrinking.
func (v *Violation) Class() string { return v.Property + "/" + v.Oracle + "/" + v.Site }

// World is one simulated world deciding one property (or part of one).
type World interface {
	ID() string   // e.g. "C12" — the property it decides
	Name() string // e.g. "c12" or "c18a"
	// Runs is the number of run indices in a tier.
	Runs(tier string) int
	// Run executes one run; all nondeterminism comes from c.
	Run(c *RunCtx)
	Info() WorldInfo
}

// WorldInfo is static text for evidence.
type WorldInfo struct {
	Level       string
	Rule        string
	Assumptions []string
	Real        []string
	Stub        []string
	SimTimeNote string
}

var worlds = map[string]World{}

// Register adds a world.
func Register(w World) { worlds[w.Name()] = w }

// WorldsFor returns the worlds deciding a property, sorted by name.
func WorldsFor(prop string) []World {
	var out []World
	for _, w := range worlds {
		if w.ID() == prop || w.Name() == prop {
			out = append(out, w)
		}
	}
	sort.Slice(out, func(i, j int) bool { return out[i].Name() < out[j].Name() })
	return out
}

// AllWorlds returns every registered world sorted by name.
func AllWorlds() []World {
	var out []World
	for _, w := range worlds {
		out = append(out, w)
	}
	sort.Slice(out, func(i, j int) bool { return out[i].Name() < out[j].Name() })
	return out
}

// Stats are per-worker measured counters.
type Stats struct {
	Runs         int64            `json:"runs"`
	Execs        int64            `json:"execs"`
	Counters     map[string]int64 `json:"counters"`
	Distinct     map[uint64]bool  `json:"-"`
	DistinctList []uint64         `json:"distinct"`
	Samples      []interface{}    `json:"samples"`
	SimNanos     int64            `json:"sim_nanos"`
	Unknown      int64            `json:"unknown"`
}

// NewStats allocates.
func NewStats() *Stats {
	return &Stats{Counters: map[string]int64{}, Distinct: map[uint64]bool{}}
}

// Merge folds o into s.
func (s *Stats) Merge(o *Stats) {
	s.Runs += o.Runs
	s.Execs += o.Execs
	s.SimNanos += o.SimNanos
	s.Unknown += o.Unknown
	for k, v := range o.Counters {
		s.Counters[k] += v
	}
	for _, h := range o.DistinctList {
		s.Distinct[h] = true
	}
	for h := range o.Distinct {
		s.Distinct[h] = true
	}
	for _, x := range o.Samples {
		if len(s.Samples) < 6 {
			s.Samples = append(s.Samples, x)
		}
	}
}

// RunCtx is what a world sees of the kernel during one run.
type RunCtx struct {
	*Tape
	Prop    string
	World   string
	Tier    string
	Seed    uint64
	RunIdx  int
	Stats   *Stats
	Verbose bool
	Log     []string
	logHash uint64
	viol    *Violation
	focus   map[string]int // replay: only these enumeration items
	cur     []focusItem
	journal *os.File
}

type focusItem struct {
	label string
	k     int
}

// Logf appends to the event trace (kept only in verbose runs; never draws).
func (c *RunCtx) Logf(format string, args ...interface{}) {
	if !c.Verbose {
		return
	}
	s := fmt.Sprintf(format, args...)
	c.logHash = FNV64(c.logHash, s)
	if len(c.Log) < 4000 {
		c.Log = append(c.Log, s)
	} else if len(c.Log) == 4000 {
		c.Log = append(c.Log, "... (trace truncated; hash covers everything)")
	}
}

// LogHash is the hash of the whole verbose trace.
func (c *RunCtx) LogHash() uint64 { return c.logHash }

// Fail records the first violation of the run.
func (c *RunCtx) Fail(oracle, site, format string, args ...interface{}) {
	if c.viol != nil {
		return
	}
	v := &Violation{Property: c.Prop, Oracle: oracle, Site: site, Msg: fmt.Sprintf(format, args...)}
	if len(c.cur) > 0 {
		v.Focus = map[string]int{}
		for _, f := range c.cur {
			v.Focus[f.label] = f.k
		}
	}
	c.viol = v
	c.Logf("VIOLATION %s %s: %s", oracle, site, v.Msg)
}

// Failed reports whether a violation was recorded.
func (c *RunCtx) Failed() bool { return c.viol != nil }

// Violation returns the recorded violation, if any.
func (c *RunCtx) Violation() *Violation { return c.viol }

// Enumerate runs f for every k in [0,n) — or only the focused k on replay.
// Enumeration is not a tape choice: it is complete by construction.
func (c *RunCtx) Enumerate(label string, n int, f func(k int)) {
	if fk, ok := c.focus[label]; ok {
		if fk < n {
			c.cur = append(c.cur, focusItem{label, fk})
			c.note()
			f(fk)
			c.cur = c.cur[:len(c.cur)-1]
		}
		return
	}
	for k := 0; k < n; k++ {
		if c.viol != nil {
			return
		}
		c.cur = append(c.cur, focusItem{label, k})
		c.note()
		f(k)
		c.cur = c.cur[:len(c.cur)-1]
	}
}

// note overwrites the journal slot so a dead worker names its last item.
func (c *RunCtx) note() {
	if c.journal == nil {
		return
	}
	var sb strings.Builder
	fmt.Fprintf(&sb, "run=%d", c.RunIdx)
	for _, f := range c.cur {
		fmt.Fprintf(&sb, " %s=%d", f.label, f.k)
	}
	b := make([]byte, 128)
	for i := range b {
		b[i] = ' '
	}
	copy(b, sb.String())
	b[127] = '\n'
	_, _ = c.journal.WriteAt(b, 0)
}

// Count adds to a named counter (fault kinds fired, probes).
func (c *RunCtx) Count(name string, d int) { c.Stats.Counters[name] += int64(d) }

// Exec counts one execution of code under test.
func (c *RunCtx) Exec() {
	c.Stats.Execs++
	atomic.StoreInt64(&lastExec, time.Now().UnixNano())
}

// lastExec is the wall-clock instant of the most recent library execution (0: none yet); the hang watchdog of a
// worker / replay process reads it. It never influences a run: no choice is derived from it.
var lastExec int64

// HangLimit is how long one library call (plus the harness work that follows it) may take before the process
// declares it hung. Generous on purpose: the slowest legitimate step takes a few seconds.
func HangLimit() time.Duration {
	if s := os.Getenv("VERIF_HANG_SECS"); s != "" {
		if n, err := strconv.Atoi(s); err == nil && n > 0 {
			return time.Duration(n) * time.Second
		}
	}
	return 120 * time.Second
}

var watchdogOnce sync.Once

// StartHangWatchdog makes the process exit with ExitHang once a library call has not returned for HangLimit().
// Go pre-empts tight loops, so the watchdog goroutine runs even with GOMAXPROCS=1.
func StartHangWatchdog() {
	watchdogOnce.Do(func() {
		limit := HangLimit()
		go func() {
			for {
				time.Sleep(limit / 20)
				if t := atomic.LoadInt64(&lastExec); t != 0 && time.Since(time.Unix(0, t)) > limit {
					fmt.Fprintf(os.Stderr, "\nVERIF-HANG: a library call has not returned for %v (limit %v)\n", time.Since(time.Unix(0, t)).Round(time.Second), limit)
					buf := make([]byte, 1<<16)
					n := runtime.Stack(buf, true)
					fmt.Fprintf(os.Stderr, "%s\n", buf[:n])
					os.Exit(ExitHang)
				}
			}
		}()
	})
}

// ExitHang is the exit code of a worker or replay process whose watchdog fired.
const ExitHang = 71

// Distinct records a history/schedule key for the distinct measure.
func (c *RunCtx) Distinct(key string) { c.Stats.Distinct[FNV64(0, key)] = true }

// DistinctH records a pre-hashed key.
func (c *RunCtx) DistinctH(h uint64) { c.Stats.Distinct[h] = true }

// Sample keeps a few written-out cases for the evidence file.
func (c *RunCtx) Sample(v interface{}) {
	if len(c.Stats.Samples) < 3 {
		c.Stats.Samples = append(c.Stats.Samples, v)
	}
}

// WantSample says whether another sample is still wanted (avoid building it otherwise).
func (c *RunCtx) WantSample() bool { return len(c.Stats.Samples) < 3 }
