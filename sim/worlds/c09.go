package worlds

import (
	"encoding/hex"
	"encoding/json"
	"errors"
	"fmt"
	"io"
	"runtime"
	"sort"
	"strings"
	"syscall"

	"github.com/libsv/go-bt/v2"

	"verif/sim/kernel"
	"verif/sim/models"
)

// C09: the C01 world with a faulty transport. Truncation offsets and length
// inflations are enumerated completely per base stream; flips, reader errors
// and delivery plans are seeded.

type c09World struct{}

func init() { kernel.Register(&c09World{}) }

func (*c09World) ID() string   { return "C09" }
func (*c09World) Name() string { return "c09" }
func (*c09World) Runs(tier string) int {
	if tier == "thorough" {
		return 60000
	}
	return 3000
}

// SetupWorker caps the address space so that "allocate what the prefix claims"
// kills the worker (journalled, reported) instead of the machine.
func (*c09World) SetupWorker() {
	lim := uint64(12) << 30
	_ = syscall.Setrlimit(syscall.RLIMIT_AS, &syscall.Rlimit{Cur: lim, Max: lim})
}

func (*c09World) Info() kernel.WorldInfo {
	return kernel.WorldInfo{
		Level: "fault_enumeration",
		Rule: "one run = one small reference-encoded base stream (1..3 transactions; single / concatenated / counted list; standard or extended) plus JSON documents carrying it; over it are injected, COMPLETELY: truncation at every offset 0..len for every applicable binary entry point, every (length/count field x inflated value in {rest+1, rest+300, 2^21, 2^26, 2^31, 2^32-1, 2^32, 2^63, 2^64-1, non-minimal widths 3/5/9}), " +
			"and for every JSON path {delete key, null, wrong type, non-hex, odd hex, [null]} plus torn documents at every offset; SEEDED: bit flips (exhaustive over all bits in thorough tier for streams <= 200 bytes), sticky reader errors at offsets biased to field boundaries (with and without bytes in the same call), 3 delivery plans per run. " +
			"distinct = distinct (entry point, fault kind, fault position class [field name or offset], outcome class) tuples; every injected fault is non-trivial by construction (fault-free decoding is C01).",
		Assumptions: []string{
			"allocation bound is 8 MiB + 64 x bytes supplied (loose on purpose: a decoder reading in chunks of up to a few MiB is fine; allocating what a prefix claims is not — every inflation >= 2^26 exceeds it by far), measured as runtime.MemStats.TotalAlloc delta around the call in a single-threaded worker",
			"allocation failure cannot be injected into a Go program; the worker's address space is capped at 12 GiB so that a multi-GiB allocation kills the worker, which the journal turns into a reported violation",
			"readers honour the io.Reader contract (at most two zero-length reads in a row)",
		},
		Real: []string{"bt.NewTxFromBytes", "bt.NewTxFromString", "bt.NewTxFromStream", "bt.Tx.ReadFrom", "bt.Txs.ReadFrom", "bt.Input.ReadFrom/ReadFromExtended", "bt.Output.ReadFrom", "bt.VarInt.ReadFrom",
			"json.Unmarshal into *bt.Tx, tx.NodeJSON(), txs.NodeJSON(), *bt.Input, *bt.Output, output.NodeJSON(), *bt.UTXO, utxo.NodeJSON(), utxos.NodeJSON()", "encoding/json (std-lib, real)"},
		Stub:        []string{"sender = reference codec", "transport = kernel.Stream with fault plan", "stored JSON documents built by the harness"},
		SimTimeNote: "decoders read no clock; simulated time is not applicable to this world.",
	}
}

func genSmallRTx(c *kernel.RunCtx, extended bool) *models.RTx {
	c.Begin("tx")
	defer c.End()
	t := &models.RTx{Version: pickU32(c), Lock: pickU32(c)}
	nin, nout := c.Pick(2, 5, 3, 1), c.Pick(2, 5, 3, 1)
	sl := func() int {
		switch c.Pick(8, 3, 1) {
		case 0:
			return c.Range(0, 30)
		case 1:
			return []int{0, 1, 75, 76, 107}[c.Choose(5)]
		}
		return []int{252, 253, 254, 300}[c.Choose(4)]
	}
	for i := 0; i < nin; i++ {
		var in models.RIn
		copy(in.TxIDWire[:], c.Bytes(32))
		in.Vout, in.Seq = pickU32(c), pickU32(c)
		if c.Bool(1, 6) {
			in.TxIDWire, in.Vout = [32]byte{}, 0xffffffff // the null outpoint (coinbase pattern)
			c.Count("probe.null_outpoint_input", 1)
		}
		in.Script = c.Bytes(sl())
		if extended {
			in.PrevSats = pickU64(c)
			in.PrevScript = c.Bytes(sl())
		}
		t.Ins = append(t.Ins, in)
	}
	for i := 0; i < nout; i++ {
		t.Outs = append(t.Outs, models.ROut{Sats: pickU64(c), Script: c.Bytes(sl())})
	}
	if nin == 0 && nout == 0 && t.Lock == 0xEF000000 {
		t.Lock = 1
	}
	return t
}

type c09Res struct {
	ep       string
	err      error
	n        int64
	supplied int
	pn       string
	alloc    uint64
	okTx     bool
	errFired bool
}

// readerWrap is drawn once per run (see Run): how the simulated stream is framed for the decoder.
var readerWrap int

type onlyReader struct{ r io.Reader }

func (o onlyReader) Read(p []byte) (int, error) { return o.r.Read(p) }

// framedReader: a caller's reader that happens to have methods named like bytes.Reader's, with another meaning
// (the payload length its frame header announced, not what has arrived).
type framedReader struct{ r io.Reader }

func (o framedReader) Read(p []byte) (int, error) { return o.r.Read(p) }
func (o framedReader) Len() int                   { return 1 << 30 }
func (o framedReader) Size() int64                { return 1 << 30 }

var memA, memB runtime.MemStats

func meter(on bool, f func()) uint64 {
	if !on {
		f()
		return 0
	}
	runtime.ReadMemStats(&memA)
	f()
	runtime.ReadMemStats(&memB)
	return memB.TotalAlloc - memA.TotalAlloc
}

// binary entry points
const (
	epFromBytes = iota
	epFromStream
	epTxReadFrom
	epTxsReadFrom
	epInput
	epInputExt
	epOutput
	epVarInt
	epFromString
)

var epNames = []string{"NewTxFromBytes", "NewTxFromStream", "Tx.ReadFrom", "Txs.ReadFrom", "Input.ReadFrom", "Input.ReadFromExtended", "Output.ReadFrom", "VarInt.ReadFrom", "NewTxFromString"}

// runBinary feeds data (with the stream's fault plan) to one entry point.
func runBinary(c *kernel.RunCtx, ep int, data []byte, plan kernel.Plan, truncAt, errAt int, errWith bool, doMeter bool) c09Res {
	r := c09Res{ep: epNames[ep]}
	c.Exec()
	switch ep {
	case epFromBytes, epFromStream, epFromString:
		b := data
		if truncAt >= 0 && truncAt < len(b) {
			b = b[:truncAt]
		}
		b = append([]byte(nil), b...)
		r.supplied = len(b)
		r.alloc = meter(doMeter, func() {
			r.pn = catch(func() {
				if ep == epFromString {
					// the text door: the same bytes as hex digits; a cut in the middle of a byte leaves an odd digit
					h := hex.EncodeToString(b)
					if plan.Seed&1 == 1 && truncAt >= 0 && truncAt < len(data) {
						h += hex.EncodeToString(data[truncAt : truncAt+1])[:1]
					}
					var tx *bt.Tx
					tx, r.err = bt.NewTxFromString(h)
					r.okTx = tx != nil && r.err == nil
					if r.err == nil {
						r.n = int64(len(b))
					}
				} else if ep == epFromBytes {
					var tx *bt.Tx
					tx, r.err = bt.NewTxFromBytes(b)
					r.okTx = tx != nil && r.err == nil
					if r.err == nil {
						r.n = int64(len(b))
					}
				} else {
					var used int
					_, used, r.err = bt.NewTxFromStream(b)
					r.n = int64(used)
					r.okTx = r.err == nil
				}
			})
		})
		return r
	}
	st := kernel.NewStream(data, plan)
	st.TruncAt, st.ErrAt, st.ErrWith = truncAt, errAt, errWith
	// the reader as the caller frames it: bare, or inside an io.LimitedReader whose limit is a generous
	// message-size bound (not the amount of data present), or behind a type that hides every optional method
	var rd io.Reader = st
	switch readerWrap {
	case 1:
		rd = io.LimitReader(st, 1<<31)
	case 2:
		rd = onlyReader{st}
	case 3:
		rd = framedReader{st}
	}
	r.alloc = meter(doMeter, func() {
		r.pn = catch(func() {
			switch ep {
			case epTxReadFrom:
				tx := &bt.Tx{}
				r.n, r.err = tx.ReadFrom(rd)
			case epTxsReadFrom:
				var l bt.Txs
				r.n, r.err = l.ReadFrom(rd)
			case epInput:
				in := &bt.Input{}
				r.n, r.err = in.ReadFrom(rd)
			case epInputExt:
				in := &bt.Input{}
				r.n, r.err = in.ReadFromExtended(rd)
			case epOutput:
				o := &bt.Output{}
				r.n, r.err = o.ReadFrom(rd)
			case epVarInt:
				var v bt.VarInt
				r.n, r.err = v.ReadFrom(rd)
			}
		})
	})
	r.okTx = r.err == nil
	r.supplied = st.Supplied
	r.errFired = st.ErrFired
	return r
}

// judge applies the oracles common to every faulted binary execution.
// mustFail: the fault leaves the unit incomplete, so an error is required.
func judge(c *kernel.RunCtx, r c09Res, fault string, mustFail bool, injectedErr bool, metered bool) {
	site := r.ep
	if r.pn != "" {
		if strings.Contains(r.pn, "read-call budget") {
			c.Fail("liveness", site, "%s kept calling Read beyond the budget (%s)", r.ep, fault)
		} else {
			c.Fail("panic", site, "%s panicked on %s: %s", r.ep, fault, r.pn)
		}
		return
	}
	if r.n > int64(r.supplied) {
		c.Fail("overcount", site, "%s reported %d bytes consumed but only %d were supplied (%s, err=%v)", r.ep, r.n, r.supplied, fault, r.err)
		return
	}
	if r.n < 0 {
		c.Fail("overcount", site, "%s reported a negative byte count %d (%s)", r.ep, r.n, fault)
		return
	}
	if r.err == nil && r.n != int64(r.supplied) && r.ep != "NewTxFromStream" {
		c.Fail("overcount", site, "%s succeeded reporting %d bytes, the reader handed out %d (%s)", r.ep, r.n, r.supplied, fault)
		return
	}
	if mustFail && r.err == nil {
		c.Fail("accepted-incomplete", site, "%s returned success although the data ends / fails inside the unit (%s, n=%d supplied=%d)", r.ep, fault, r.n, r.supplied)
		return
	}
	if injectedErr && mustFail && r.err != nil && !errors.Is(r.err, kernel.ErrInjected) {
		c.Fail("error-lost", site, "%s: reader failed with the injected error at %s but the decoder returned %q", r.ep, fault, r.err)
		return
	}
	if metered {
		bound := uint64(8<<20) + 64*uint64(r.supplied)
		if r.alloc > bound {
			c.Fail("alloc", site, "%s allocated %d bytes for %d supplied bytes (bound %d) on %s", r.ep, r.alloc, r.supplied, bound, fault)
			return
		}
	}
}

var inflateNames = []string{"rest+1", "rest+300", "2^21", "2^26", "2^31", "2^32-1", "2^32", "2^63", "2^64-1", "w3", "w5", "w9", "ceil(2^64/9)", "ceil(2^64/10)", "ceil(2^64/41)", "2^61", "2^64/41*3+1"}

// wrapV: products of these counts with a minimum element size (9, 10, 41, 8) wrap around 2^64 to something small
var wrapV = []uint64{^uint64(0)/9 + 1, ^uint64(0)/10 + 1, ^uint64(0)/41 + 1, 1 << 61, (^uint64(0)/41)*3 + 3}

func outcomeClass(r c09Res) string {
	if r.pn != "" {
		return "panic"
	}
	if r.err == nil {
		return "ok"
	}
	return "err"
}

func (w *c09World) Run(c *kernel.RunCtx) {
	c.Begin("shape")
	readerWrap = c.Pick(3, 2, 1, 1)
	c.Count(fmt.Sprintf("probe.reader_framing_%d", readerWrap), 1)
	extended := c.Bool(1, 2)
	container := c.Pick(4, 2, 2)
	ntx := 1
	if container > 0 {
		ntx = c.Range(1, 3)
		if container == 2 && c.Bool(1, 3) {
			ntx = c.Range(4, 7) // several genuine transactions behind the count
		}
	}
	c.End()
	var txs []*models.RTx
	for i := 0; i < ntx; i++ {
		txs = append(txs, genSmallRTx(c, extended))
	}
	if ntx > 1 && c.RunIdx%3 == 1 {
		// a chain: later transactions spend outputs of earlier ones of the same stream, with the index on, at and
		// beyond the parent's last output
		for k := 1; k < ntx; k++ {
			if len(txs[k].Ins) == 0 {
				continue
			}
			parent := txs[(k*7+c.RunIdx)%k]
			in := &txs[k].Ins[(k+c.RunIdx)%len(txs[k].Ins)]
			disp := parent.TxIDDisplay()
			for j := 0; j < 32; j++ {
				in.TxIDWire[j] = disp[31-j]
			}
			no := len(parent.Outs)
			in.Vout = []uint32{0, uint32(no) - 1, uint32(no), uint32(no) + 1, 0xffffffff}[(k+c.RunIdx/3)%5]
		}
		c.Count("probe.spends_earlier_tx_of_same_stream", 1)
	}
	big := c.RunIdx%41 == 7
	if big {
		// quota: one script longer than the decoder's read chunk, so chunk-boundary behaviour is reachable
		c.Begin("big")
		n := 65537 + c.Choose(140000)
		blob := make([]byte, n)
		for i := range blob {
			blob[i] = byte(i*7 + n)
		}
		t := txs[0]
		switch c.Choose(3) {
		case 0:
			t.Outs = append(t.Outs, models.ROut{Sats: 1, Script: blob})
		case 1:
			t.Ins = append(t.Ins, models.RIn{Script: blob, Seq: 1})
		default:
			t.Ins = append(t.Ins, models.RIn{PrevScript: blob, Seq: 2})
			if !extended {
				t.Ins[len(t.Ins)-1].Script, t.Ins[len(t.Ins)-1].PrevScript = blob, nil
			}
		}
		c.End()
		c.Count("probe.script_over_64k", 1)
	}
	many := c.RunIdx%41 == 17
	if many {
		// quota: more than a thousand well-formed elements behind a count, so that "reserve the rest once the
		// list looks genuine" strategies are reachable
		c.Begin("many")
		n := 1030 + c.Choose(120)
		t := txs[0]
		if c.Bool(1, 2) {
			for i := 0; i < n; i++ {
				t.Outs = append(t.Outs, models.ROut{Sats: uint64(i)})
			}
		} else {
			for i := 0; i < n; i++ {
				t.Ins = append(t.Ins, models.RIn{Vout: uint32(i), Seq: 0xffffffff})
			}
		}
		c.End()
		c.Count("probe.over_1000_elements", 1)
	}
	data, fields, ends := models.EncodeList(txs, extended, container == 2, nil)
	if many {
		var cf []models.Field
		for _, f := range fields {
			if !strings.HasSuffix(f.Name, "_len") {
				cf = append(cf, f)
			}
		}
		fields = cf // only the counts are inflated in these runs (a thousand script-length fields add nothing new)
	}
	if c.RunIdx%499 == 3 {
		w.bigBlockThenForgedCount(c)
		if c.Failed() {
			return
		}
	}
	plans := []kernel.Plan{{Kind: 0}, {Kind: 1, EOFWith: true}, kernel.DrawPlan(c.Tape)}
	// seeded fault positions, drawn up front so enumeration below is replayable
	boundary := func() int {
		if len(fields) > 0 && c.Bool(2, 3) {
			f := fields[c.Choose(len(fields))]
			return f.Off + c.Choose(f.Len+1)
		}
		return c.Choose(len(data) + 1)
	}
	var special []int
	for _, f := range fields {
		if f.Val > 65536 && strings.HasSuffix(f.Name, "_len") {
			body := f.Off + f.Len
			for m := 1; uint64(m)*65536 <= f.Val; m++ {
				for _, d := range []int{-1, 0, 1} {
					if o := body + m*65536 + d; o >= 0 && o <= len(data) {
						special = append(special, o)
					}
				}
			}
		}
	}
	c.Begin("seeded-faults")
	nSeeded := 24
	flipOff, flipBit, errOff := make([]int, nSeeded), make([]int, nSeeded), make([]int, nSeeded)
	errWith := make([]bool, nSeeded)
	for i := 0; i < nSeeded; i++ {
		flipOff[i] = boundary()
		if flipOff[i] >= len(data) {
			flipOff[i] = len(data) - 1
		}
		flipBit[i] = c.Choose(8)
		errOff[i] = boundary()
		errWith[i] = c.Bool(1, 2)
	}
	c.End()
	if len(special) > 0 {
		for i := 0; i < nSeeded && i < len(special); i++ {
			errOff[i] = special[i] // reader errors at the chunk boundaries too
		}
	}
	if c.WantSample() {
		c.Sample(map[string]interface{}{"base_stream_hex": hex.EncodeToString(data), "container": container, "extended": extended, "length_fields": len(fields),
			"faults": fmt.Sprintf("trunc@0..%d, %d fields x %d inflations, %d flips, %d reader errors, JSON path faults", len(data), len(fields), len(inflateNames), nSeeded, nSeeded)})
	}
	streamEP := epTxReadFrom
	if container == 2 {
		streamEP = epTxsReadFrom
	}
	eps := []int{streamEP}
	if container != 2 && (!big || (c.RunIdx/41)%2 == 0) {
		eps = append(eps, epFromStream)
		if container == 0 {
			eps = append(eps, epFromBytes, epFromString)
		}
	}
	unitEnd := func(ep int) int { // where the unit this entry point decodes ends
		if ep == epTxsReadFrom || ep == epFromBytes || ep == epFromString {
			return len(data)
		}
		return ends[0]
	}
	note := func(ep int, kind, pos string, r c09Res) {
		c.Distinct(epNames[ep] + "|" + kind + "|" + pos + "|" + outcomeClass(r))
	}
	fieldAt := func(off int) string {
		name := "payload"
		for _, f := range fields {
			if off >= f.Off && off < f.Off+f.Len {
				return f.Name
			}
		}
		return name
	}

	// 1. truncation at every offset (strided for long streams, plus every 64 KiB boundary inside long fields +-1)
	stride := 1
	if len(data) > 600 {
		stride = len(data)/600 + 1
	}
	if big {
		stride = len(data)/150 + 1
	}
	nReg := len(data)/stride + 1
	c.Enumerate("trunc", nReg+len(special), func(ki int) {
		k := ki * stride
		if ki >= nReg {
			k = special[ki-nReg]
			c.Count("probe.trunc_at_chunk_boundary", 1)
		}
		if k > len(data) {
			k = len(data)
		}
		for _, ep := range eps {
			if c.Failed() {
				return
			}
			r := runBinary(c, ep, data, plans[(ki+ep)%3], k, -1, false, ki%4 == 0)
			c.Count("fault.trunc", 1)
			judge(c, r, fmt.Sprintf("trunc@%d of %d", k, len(data)), k < unitEnd(ep), false, ki%4 == 0)
			note(ep, "trunc", fieldAt(k), r)
		}
	})
	if c.Failed() {
		return
	}
	// 2. every length field x every inflated value
	c.Enumerate("inflate", len(fields)*len(inflateNames), func(j int) {
		f := fields[j/len(inflateNames)]
		vi := j % len(inflateNames)
		rest := uint64(len(data) - (f.Off + f.Len))
		var enc []byte
		switch vi {
		case 0:
			enc = models.VarInt(rest + 1)
		case 1:
			enc = models.VarInt(rest + 300)
		case 2:
			enc = models.VarInt(1 << 21)
		case 3:
			enc = models.VarInt(1 << 26)
		case 4:
			enc = models.VarInt(1 << 31)
		case 5:
			enc = models.VarInt(1<<32 - 1)
		case 6:
			enc = models.VarInt(1 << 32)
		case 7:
			enc = models.VarInt(1 << 63)
		case 8:
			enc = models.VarInt(^uint64(0))
		case 12, 13, 14, 15, 16:
			enc = models.VarInt(wrapV[vi-12])
		default:
			var ok bool
			enc, ok = models.VarIntWide(f.Val, []int{3, 5, 9}[vi-9])
			if !ok || len(enc) == f.Len {
				return
			}
		}
		mut := append(append(append([]byte(nil), data[:f.Off]...), enc...), data[f.Off+f.Len:]...)
		fault := fmt.Sprintf("len@%s(off %d):=%s", f.Name, f.Off, inflateNames[vi])
		for _, ep := range eps {
			if c.Failed() {
				return
			}
			r := runBinary(c, ep, mut, plans[(j+ep)%3], -1, -1, false, true)
			c.Count("fault.len", 1)
			if vi >= 9 && vi < 12 {
				c.Count("probe.nonminimal_width_injected", 1)
			}
			// inflated counts/lengths can never be satisfied by what follows (values > rest), except
			// element counts whose elements could be parsed out of the remaining bytes: only the
			// generic oracles apply there. Non-minimal widths keep the value: must still succeed.
			mustFail := (vi < 9 || vi >= 12) && (strings.HasSuffix(f.Name, "_len") || vi >= 2)
			if ep == epFromStream || ep == epTxReadFrom {
				// a field beyond the first transaction does not concern these entry points
				if f.Off >= ends[0] {
					mustFail = false
				}
			}
			judge(c, r, fault, mustFail, false, true)
			if vi >= 9 && vi < 12 && r.err != nil && r.pn == "" && !c.Failed() {
				c.Fail("rejected-nonminimal", r.ep, "%s rejected a stream whose only change is a non-minimal (but valid) length prefix: %s: %v", r.ep, fault, r.err)
			}
			note(ep, "len:"+inflateNames[vi], f.Name, r)
		}
	})
	if c.Failed() {
		return
	}
	// 3. seeded flips and reader errors
	c.Enumerate("flip", nSeeded, func(i int) {
		if len(data) == 0 {
			return
		}
		mut := append([]byte(nil), data...)
		mut[flipOff[i]] ^= 1 << uint(flipBit[i])
		for _, ep := range eps {
			if c.Failed() {
				return
			}
			r := runBinary(c, ep, mut, plans[(i+ep)%3], -1, -1, false, true)
			c.Count("fault.flip", 1)
			judge(c, r, fmt.Sprintf("flip@%d bit %d", flipOff[i], flipBit[i]), false, false, true)
			note(ep, "flip", fieldAt(flipOff[i]), r)
		}
	})
	if c.Failed() {
		return
	}
	c.Enumerate("err", nSeeded, func(i int) {
		ep := streamEP
		r := runBinary(c, ep, data, plans[i%3], -1, errOff[i], errWith[i], true)
		if r.errFired {
			c.Count("fault.err", 1)
		}
		judge(c, r, fmt.Sprintf("err@%d with-bytes=%v", errOff[i], errWith[i]), errOff[i] < unitEnd(ep), true, true)
		note(ep, "err", fieldAt(errOff[i]), r)
	})
	if c.Failed() {
		return
	}
	if c.Tier == "thorough" && len(data) <= 200 {
		c.Enumerate("flipall", len(data)*8, func(i int) {
			mut := append([]byte(nil), data...)
			mut[i/8] ^= 1 << uint(i%8)
			r := runBinary(c, streamEP, mut, plans[i%3], -1, -1, false, true)
			c.Count("fault.flip", 1)
			judge(c, r, fmt.Sprintf("flip@%d bit %d", i/8, i%8), false, false, true)
		})
		if c.Failed() {
			return
		}
	}
	if big {
		// the field decoders see the long script on its own sub-stream; JSON documents stay small
		w.subUnits(c, txs[0], extended, plans)
		return
	}
	if many {
		return
	}
	// 4. the field decoders on their own sub-streams
	w.subUnits(c, txs[0], extended, plans)
	if c.Failed() {
		return
	}
	// 5. JSON decoders
	w.jsonDocs(c, txs, data, fields, extended, container)
}

// bigBlockThenForgedCount: state left behind by an earlier, genuine decode must not be trusted later. A block
// list of more than a million minimal transactions is decoded (successfully), then a few bytes claiming as many
// are fed to the same entry point.
func (w *c09World) bigBlockThenForgedCount(c *kernel.RunCtx) {
	n := 1200000 + c.Choose(1000)
	one, _ := (&models.RTx{Version: 1}).Encode(false, nil) // 10 bytes
	blk := append([]byte(nil), models.VarInt(uint64(n))...)
	for i := 0; i < n; i++ {
		blk = append(blk, one...)
	}
	var l bt.Txs
	var err error
	c.Exec()
	if pn := catch(func() { _, err = l.ReadFrom(kernel.NewStream(blk, kernel.Plan{})) }); pn != "" || err != nil || len(l) != n {
		c.Fail("decode", "Txs.ReadFrom", "a genuine block list of %d minimal transactions was not decoded: panic=%q err=%v len=%d", n, pn, err, len(l))
		return
	}
	l = nil
	c.Count("probe.million_tx_block_decoded", 1)
	// the same for fields: a genuine 12 MiB script is decoded, then short inputs claim 9 and 11 MiB
	bigTx := &models.RTx{Version: 1, Outs: []models.ROut{{Sats: 1, Script: make([]byte, 12<<20)}}, Ins: []models.RIn{{Script: make([]byte, 12<<20)}}}
	for _, ext := range []bool{false, true} {
		if ext {
			bigTx.Ins[0].PrevScript = make([]byte, 12<<20)
		}
		enc, _ := bigTx.Encode(ext, nil)
		tx := &bt.Tx{}
		c.Exec()
		if pn := catch(func() { _, err = tx.ReadFrom(kernel.NewStream(enc, kernel.Plan{})) }); pn != "" || err != nil {
			c.Fail("decode", "Tx.ReadFrom", "a genuine transaction with 12 MiB scripts was not decoded: panic=%q err=%v", pn, err)
			return
		}
	}
	c.Count("probe.huge_script_decoded", 1)
	// a length prefix that over-claims in front of 12 MiB of data that really is there ("this much has arrived, so
	// the claim must be genuine" is not an argument)
	{
		real := &models.RTx{Version: 1, Ins: []models.RIn{{Script: []byte{0x51}}}, Outs: []models.ROut{{Sats: 1, Script: make([]byte, 12<<20)}}}
		enc, fs := real.Encode(false, nil)
		for _, f := range fs {
			if !strings.HasSuffix(f.Name, "_len") || f.Val < 1<<20 {
				continue
			}
			for _, claim := range []uint64{f.Val + 1, 1 << 31, 1 << 62, ^uint64(0)} {
				mut := append(append(append([]byte(nil), enc[:f.Off]...), models.VarInt(claim)...), enc[f.Off+f.Len:]...)
				for _, ep := range []int{epTxReadFrom, epFromBytes} {
					r := runBinary(c, ep, mut, kernel.Plan{Kind: 5, Seed: claim}, -1, -1, false, true)
					judge(c, r, fmt.Sprintf("len@%s:=%d in front of %d bytes of real data", f.Name, claim, f.Val), true, false, true)
					if c.Failed() {
						return
					}
				}
			}
		}
		c.Count("probe.overclaim_before_megabytes_of_real_data", 1)
	}
	// a structural element repeated millions of times: the extended-format marker again and again (anything that
	// recurses or keeps per-marker state per occurrence shows up as a dead process or in the meter)
	{
		rep := make([]byte, 0, 4+6*6000000)
		rep = append(rep, 1, 0, 0, 0)
		for i := 0; i < 6000000; i++ {
			rep = append(rep, 0, 0, 0, 0, 0, 0xEF)
		}
		for _, ep := range []int{epTxReadFrom, epFromBytes, epTxsReadFrom} {
			r := runBinary(c, ep, rep, kernel.Plan{}, -1, -1, false, true)
			judge(c, r, "version followed by the extended-format marker repeated six million times", false, false, true)
			if c.Failed() {
				return
			}
		}
		c.Count("probe.marker_repeated_millions_of_times", 1)
	}
	// proportionality holds for genuine data of any size: one 40 MiB data output, metered like everything else
	{
		huge := &models.RTx{Version: 1, Ins: []models.RIn{{Script: []byte{0x51}}}, Outs: []models.ROut{{Sats: 0, Script: make([]byte, (40<<20)+c.Choose(4096))}}}
		enc, _ := huge.Encode(false, nil)
		for _, ep := range []int{epTxReadFrom, epFromBytes} {
			r := runBinary(c, ep, enc, kernel.Plan{}, -1, -1, false, true)
			judge(c, r, "a genuine transaction with one 40 MiB data output", false, false, true)
			if !c.Failed() && (r.err != nil || r.n != int64(len(enc))) {
				c.Fail("decode", r.ep, "a genuine transaction with a 40 MiB data output was not decoded: err=%v n=%d of %d", r.err, r.n, len(enc))
			}
			if c.Failed() {
				return
			}
		}
		c.Count("probe.40MiB_script_metered", 1)
	}
	small := &models.RTx{Version: 1, Ins: []models.RIn{{Script: []byte{1}, PrevScript: []byte{2}}}, Outs: []models.ROut{{Script: []byte{3}}}}
	for _, ext := range []bool{false, true} {
		enc, fs := small.Encode(ext, nil)
		for _, f := range fs {
			if !strings.HasSuffix(f.Name, "_len") {
				continue
			}
			for _, claim := range []uint64{9 << 20, 11 << 20} {
				mut := append(append(append([]byte(nil), enc[:f.Off]...), models.VarInt(claim)...), enc[f.Off+f.Len:]...)
				r := runBinary(c, epTxReadFrom, mut, kernel.Plan{Kind: 3, Seed: claim}, -1, -1, false, true)
				judge(c, r, fmt.Sprintf("len@%s:=%d MiB after genuine 12 MiB scripts were decoded in this process", f.Name, claim>>20), true, false, true)
				if c.Failed() {
					return
				}
			}
		}
	}
	for _, claim := range []uint64{uint64(n), 1 << 21, 1 << 24} {
		forged := append(models.VarInt(claim), one...)
		r := runBinary(c, epTxsReadFrom, forged, kernel.Plan{Kind: 1}, -1, -1, false, true)
		judge(c, r, fmt.Sprintf("count %d claimed by %d bytes after a genuine %d-transaction block was decoded in this process", claim, len(forged), n), true, false, true)
		if c.Failed() {
			return
		}
	}
}

func (w *c09World) subUnits(c *kernel.RunCtx, m *models.RTx, extended bool, plans []kernel.Plan) {
	type unit struct {
		ep     int
		body   []byte
		fields []models.Field
	}
	var units []unit
	if len(m.Ins) > 0 {
		one := &models.RTx{Ins: m.Ins[:1]}
		b, fs := one.Encode(extended, nil)
		start := 5
		if extended {
			start = 11
		}
		var sub []models.Field
		for _, f := range fs {
			if strings.HasSuffix(f.Name, "_len") {
				f.Off -= start
				sub = append(sub, f)
			}
		}
		ep := epInput
		if extended {
			ep = epInputExt
		}
		units = append(units, unit{ep, append([]byte(nil), b[start:len(b)-5]...), sub})
	}
	if len(m.Outs) > 0 {
		one := &models.RTx{Outs: m.Outs[:1]}
		b, fs := one.Encode(false, nil)
		var sub []models.Field
		for _, f := range fs {
			if f.Name == "out_script_len" {
				f.Off -= 6
				sub = append(sub, f)
			}
		}
		units = append(units, unit{epOutput, append([]byte(nil), b[6:len(b)-4]...), sub})
	}
	for _, v := range []uint64{0xfc, 0xfd, 0x10000, 0x100000000} {
		units = append(units, unit{epVarInt, models.VarInt(v), nil})
	}
	for ui, u := range units {
		u := u
		ustride := len(u.body)/300 + 1
		c.Enumerate(fmt.Sprintf("unit%d-trunc", ui), len(u.body)/ustride+1, func(k int) {
			k *= ustride
			if k > len(u.body) {
				k = len(u.body)
			}
			r := runBinary(c, u.ep, u.body, plans[k%3], k, -1, false, k%4 == 0)
			c.Count("fault.trunc", 1)
			judge(c, r, fmt.Sprintf("trunc@%d of %d", k, len(u.body)), k < len(u.body), false, k%4 == 0)
			c.Distinct(epNames[u.ep] + "|trunc|" + fmt.Sprint(k*8/(len(u.body)+1)) + "|" + outcomeClass(r))
		})
		if c.Failed() {
			return
		}
		c.Enumerate(fmt.Sprintf("unit%d-inflate", ui), len(u.fields)*9, func(j int) {
			f := u.fields[j/9]
			vi := j % 9
			rest := uint64(len(u.body) - (f.Off + f.Len))
			enc := models.VarInt([]uint64{rest + 1, rest + 300, 1 << 21, 1 << 26, 1 << 31, 1<<32 - 1, 1 << 32, 1 << 63, ^uint64(0)}[vi])
			mut := append(append(append([]byte(nil), u.body[:f.Off]...), enc...), u.body[f.Off+f.Len:]...)
			r := runBinary(c, u.ep, mut, plans[j%3], -1, -1, false, true)
			c.Count("fault.len", 1)
			judge(c, r, fmt.Sprintf("len@%s:=%s", f.Name, inflateNames[vi]), true, false, true)
			c.Distinct(epNames[u.ep] + "|len:" + inflateNames[vi] + "|" + f.Name + "|" + outcomeClass(r))
		})
		if c.Failed() {
			return
		}
	}
}

// ---- JSON ----

type jsonTarget struct {
	name string
	doc  interface{}
	into func() interface{}
}

func rev32(b [32]byte) string {
	o := make([]byte, 32)
	for i := range o {
		o[i] = b[31-i]
	}
	return hex.EncodeToString(o)
}

func (w *c09World) jsonDocs(c *kernel.RunCtx, txs []*models.RTx, stream []byte, fields []models.Field, extended bool, container int) {
	m := txs[0]
	std, _ := m.Encode(false, nil)
	hx := hex.EncodeToString(std)
	var libIns, libOuts, nodeIns, nodeOuts []interface{}
	for _, in := range m.Ins {
		libIns = append(libIns, map[string]interface{}{"unlockingScript": hex.EncodeToString(in.Script), "txid": rev32(in.TxIDWire), "vout": in.Vout, "sequence": in.Seq})
		nodeIns = append(nodeIns, map[string]interface{}{"scriptSig": map[string]interface{}{"asm": "", "hex": hex.EncodeToString(in.Script)}, "txid": rev32(in.TxIDWire), "vout": in.Vout, "sequence": in.Seq})
	}
	for i, o := range m.Outs {
		libOuts = append(libOuts, map[string]interface{}{"satoshis": o.Sats, "lockingScript": hex.EncodeToString(o.Script)})
		nodeOuts = append(nodeOuts, map[string]interface{}{"value": float64(o.Sats%2100000000000000) / 1e8, "n": i, "scriptPubKey": map[string]interface{}{"asm": "", "hex": hex.EncodeToString(o.Script), "reqSigs": 1, "type": "pubkeyhash"}})
	}
	libTx := func(h string) map[string]interface{} {
		return map[string]interface{}{"txid": hex.EncodeToString(m.TxIDDisplay()), "hex": h, "inputs": libIns, "outputs": libOuts, "version": m.Version, "lockTime": m.Lock}
	}
	nodeTx := func(h string) map[string]interface{} {
		return map[string]interface{}{"version": m.Version, "locktime": m.Lock, "txid": hex.EncodeToString(m.TxIDDisplay()), "hash": hex.EncodeToString(m.TxIDDisplay()), "size": len(std), "hex": h, "vin": nodeIns, "vout": nodeOuts}
	}
	utxo := map[string]interface{}{"txid": strings.Repeat("ab", 32), "vout": 1, "lockingScript": "76a914" + strings.Repeat("11", 20) + "88ac", "satoshis": 1000}
	nutxo := map[string]interface{}{"txid": strings.Repeat("ab", 32), "vout": 1, "scriptPubKey": "76a914" + strings.Repeat("11", 20) + "88ac", "amount": 0.00001}
	targets := []jsonTarget{
		{"json:Tx(hex)", libTx(hx), func() interface{} { return &bt.Tx{} }},
		{"json:Tx(fields)", libTx(""), func() interface{} { return &bt.Tx{} }},
		{"json:Tx.NodeJSON(hex)", nodeTx(hx), func() interface{} { return bt.NewTx().NodeJSON() }},
		{"json:Tx.NodeJSON(fields)", nodeTx(""), func() interface{} { return bt.NewTx().NodeJSON() }},
		{"json:Txs.NodeJSON", []interface{}{nodeTx(""), nodeTx(hx)}, func() interface{} { var l bt.Txs; return l.NodeJSON() }},
		{"json:UTXO", utxo, func() interface{} { return &bt.UTXO{} }},
		{"json:UTXO.NodeJSON", nutxo, func() interface{} { return (&bt.UTXO{}).NodeJSON() }},
		{"json:UTXOs.NodeJSON", []interface{}{nutxo, nutxo}, func() interface{} { var l bt.UTXOs; return l.NodeJSON() }},
	}
	if len(libIns) > 0 {
		targets = append(targets, jsonTarget{"json:Input", libIns[0], func() interface{} { return &bt.Input{} }})
	}
	if len(libOuts) > 0 {
		targets = append(targets, jsonTarget{"json:Output", libOuts[0], func() interface{} { return &bt.Output{} }},
			jsonTarget{"json:Output.NodeJSON", nodeOuts[0], func() interface{} { return (&bt.Output{}).NodeJSON() }})
	}
	for ti, tg := range targets {
		tg := tg
		paths := jsonPaths(tg.doc, nil)
		// structural faults at every path
		c.Enumerate(fmt.Sprintf("json%d", ti), len(paths)*len(jsonMutNames), func(j int) {
			p := paths[j/len(jsonMutNames)]
			mk := j % len(jsonMutNames)
			doc, ok := jsonMutate(tg.doc, p, mk)
			if !ok {
				return
			}
			b, err := json.Marshal(doc)
			if err != nil {
				return
			}
			w.runJSON(c, tg, b, fmt.Sprintf("%s %s", jsonMutNames[mk], strings.Join(p, ".")), "path:"+jsonMutNames[mk]+":"+lastKey(p))
		})
		if c.Failed() {
			return
		}
		// documents written by another producer of the same format: every object gains one key from the wider
		// vocabulary of node / wallet transaction JSON and, in the same document, loses one of its own keys
		if (c.RunIdx/16)%4 == 1 { // a quarter of the runs, spread evenly over the worker shards
			var objs [][]string
			if _, ok := tg.doc.(map[string]interface{}); ok {
				objs = append(objs, nil)
			}
			for _, p := range paths {
				if v := jsonAt(tg.doc, p); v != nil {
					if _, ok := v.(map[string]interface{}); ok && len(objs) < 7 {
						objs = append(objs, p)
					}
				}
			}
			const maxKeys = 9
			c.Enumerate(fmt.Sprintf("json%d-foreign", ti), len(objs)*len(foreignKeys)*maxKeys, func(j int) {
				op := objs[j/(len(foreignKeys)*maxKeys)]
				fk := foreignKeys[(j/maxKeys)%len(foreignKeys)]
				dk := j % maxKeys // 0: nothing removed, k: the k-th own key (sorted) removed
				root := deepCopy(tg.doc)
				obj := jsonAt(root, op).(map[string]interface{})
				if _, has := obj[fk.k]; has {
					return
				}
				removed := "nothing"
				if dk > 0 {
					keys := make([]string, 0, len(obj))
					for k := range obj {
						keys = append(keys, k)
					}
					sort.Strings(keys)
					if dk > len(keys) {
						return
					}
					removed = keys[dk-1]
					delete(obj, removed)
				}
				// the value as that producer writes it, or its empty form, or null (rotating with the run)
				switch (j + c.RunIdx/64) % 3 {
				case 0:
					obj[fk.k] = fk.v
				case 1:
					switch fk.v.(type) {
					case string:
						obj[fk.k] = ""
					case []interface{}:
						obj[fk.k] = []interface{}{}
					case map[string]interface{}:
						obj[fk.k] = map[string]interface{}{}
					default:
						obj[fk.k] = 0
					}
				default:
					obj[fk.k] = nil
				}
				b, err := json.Marshal(root)
				if err != nil {
					return
				}
				c.Count("fault.json_foreign_key", 1)
				w.runJSON(c, tg, b, fmt.Sprintf("object at %q gains %q and loses %s", strings.Join(op, "."), fk.k, removed), "foreign:"+fk.k)
			})
			if c.Failed() {
				return
			}
		}
		// a longer document of the same shape (every list repeated up to 8 elements) in which EVERY number is written
		// as a dozen bytes naming a number with a million digits
		// a long list in which many elements are malformed in different ways (decoders that split a list among
		// helpers must still come back with one error)
		if l, ok := tg.doc.([]interface{}); ok && len(l) > 0 {
			// with two Ps for the duration of these calls: a decoder that sizes a pool of helpers from GOMAXPROCS
			// does not use it in a single-P process
			prevProcs := runtime.GOMAXPROCS(2)
			c.Enumerate(fmt.Sprintf("json%d-longlist", ti), 4, func(k int) {
				bad := []int{1, 9, 20, 48}[k]
				var long []interface{}
				for i := 0; i < 48; i++ {
					e := deepCopy(l[i%len(l)])
					if i*bad/48 != (i+1)*bad/48 { // spread `bad` malformed elements evenly
						switch i % 4 {
						case 0:
							e = nil
						case 1:
							e = "x"
						case 2:
							e = map[string]interface{}{}
						default:
							if m, ok := e.(map[string]interface{}); ok {
								for key := range m {
									m[key] = []interface{}{1}
								}
							}
						}
					}
					long = append(long, e)
				}
				b, err := json.Marshal(long)
				if err != nil {
					return
				}
				w.runJSON(c, tg, b, fmt.Sprintf("a list of 48 elements, %d of them malformed", bad), "longlist")
			})
			runtime.GOMAXPROCS(prevProcs)
			if c.Failed() {
				return
			}
		}
		numKeys := jsonNumberKeys(tg.doc, map[string]bool{})
		c.Enumerate(fmt.Sprintf("json%d-bignum", ti), 3*len(numKeys), func(k int) {
			txt := []string{"1e1000000", "1e-1000000", "0.1E+999999"}[k%3]
			key := numKeys[k/3]
			b, err := json.Marshal(jsonAllNumbers(tg.doc, key, "", json.RawMessage(txt)))
			if err != nil {
				return
			}
			w.runJSON(c, tg, b, fmt.Sprintf("every %q written as %s (lists repeated to 8 elements)", key, txt), "bignum:"+key)
		})
		if c.Failed() {
			return
		}
		// the whole document replaced by a scalar / empty container ("the stored value was overwritten")
		roots := []string{"null", " null\n", "[]", "{}", "\"\"", "\"00\"", "0", "true", "[null]", "[{}]", "[[]]", "{\"\":null}"}
		c.Enumerate(fmt.Sprintf("json%d-root", ti), len(roots), func(k int) {
			w.runJSON(c, tg, []byte(roots[k]), "document replaced by "+roots[k], "root:"+strings.TrimSpace(roots[k]))
		})
		if c.Failed() {
			return
		}
		// torn document at every offset (strided for long documents)
		full, _ := json.Marshal(tg.doc)
		stride := len(full)/200 + 1
		c.Enumerate(fmt.Sprintf("json%d-torn", ti), len(full)/stride, func(k int) {
			w.runJSON(c, tg, full[:k*stride], fmt.Sprintf("document torn at %d of %d", k*stride, len(full)), "torn")
		})
		if c.Failed() {
			return
		}
	}
	// documents whose embedded hex is a faulted binary stream: every length field inflated, sampled truncations
	single, sf := m.Encode(extended, nil)
	c.Enumerate("jsonhex", len(sf)*9+16, func(j int) {
		var mut []byte
		var what string
		if j < len(sf)*9 {
			f := sf[j/9]
			rest := uint64(len(single) - (f.Off + f.Len))
			enc := models.VarInt([]uint64{rest + 1, rest + 300, 1 << 21, 1 << 26, 1 << 31, 1<<32 - 1, 1 << 32, 1 << 63, ^uint64(0)}[j%9])
			mut = append(append(append([]byte(nil), single[:f.Off]...), enc...), single[f.Off+f.Len:]...)
			what = fmt.Sprintf("hex with len@%s:=%s", f.Name, inflateNames[j%9])
		} else {
			k := (j - len(sf)*9) * len(single) / 16
			mut = single[:k]
			what = fmt.Sprintf("hex truncated at %d", k)
		}
		for _, tg := range targets[:3] {
			if tg.name == "json:Tx(fields)" {
				continue
			}
			var doc map[string]interface{}
			if tg.name == "json:Tx(hex)" {
				doc = libTx(hex.EncodeToString(mut))
			} else {
				doc = nodeTx(hex.EncodeToString(mut))
			}
			b, _ := json.Marshal(doc)
			w.runJSON(c, tg, b, what, "hex-fault")
		}
	})
}

func lastKey(p []string) string {
	for i := len(p) - 1; i >= 0; i-- {
		if !strings.HasPrefix(p[i], "[") {
			return p[i]
		}
	}
	return "root"
}

func (w *c09World) runJSON(c *kernel.RunCtx, tg jsonTarget, doc []byte, fault, class string) {
	if c.Failed() {
		return
	}
	c.Exec()
	c.Count("fault.json", 1)
	var err error
	var pn string
	alloc := meter(true, func() { pn = catch(func() { err = json.Unmarshal(doc, tg.into()) }) })
	out := "ok"
	if err != nil {
		out = "err"
	}
	if pn != "" {
		out = "panic"
	}
	c.Distinct(tg.name + "|" + class + "|" + out)
	if pn != "" {
		c.Fail("panic", tg.name, "%s panicked on %s: %s; document: %s", tg.name, fault, pn, clip(string(doc), 300))
		return
	}
	if bound := uint64(8<<20) + 64*uint64(len(doc)); alloc > bound {
		c.Fail("alloc", tg.name, "%s allocated %d bytes for a %d-byte document (bound %d) on %s", tg.name, alloc, len(doc), bound, fault)
	}
}

func clip(s string, n int) string {
	if len(s) > n {
		return s[:n] + "…"
	}
	return s
}

// foreignKeys: field names other producers of transaction JSON use (bitcoind / SV node verbose output, wallet
// exports, the library's own two dialects), each with a value of the type that producer gives it.
var foreignKeys = []struct {
	k string
	v interface{}
}{
	{"coinbase", "04ffff001d0104"}, {"txinwitness", []interface{}{"00"}}, {"hex", "00"}, {"txid", strings.Repeat("cd", 32)}, {"hash", strings.Repeat("cd", 32)},
	{"asm", "OP_DUP"}, {"type", "nonstandard"}, {"addresses", []interface{}{"1BoatSLRHtKNngkdXEeobR76b53LETtpyT"}}, {"address", "1BoatSLRHtKNngkdXEeobR76b53LETtpyT"},
	{"value", 0.5}, {"valueSat", 50000000}, {"satoshis", 7}, {"amount", 0.5}, {"n", 0}, {"vout", 0}, {"sequence", 1}, {"scriptSig", map[string]interface{}{"hex": "51"}},
	{"scriptPubKey", map[string]interface{}{"hex": "51"}}, {"unlockingScript", "51"}, {"lockingScript", "51"}, {"prevout", map[string]interface{}{"value": 1, "scriptPubKey": map[string]interface{}{"hex": "51"}}},
	{"blockhash", strings.Repeat("00", 32)}, {"confirmations", 3}, {"time", 1600000000}, {"blocktime", 1600000000}, {"blockheight", 700000}, {"size", 10}, {"version", 2}, {"locktime", 0}, {"lockTime", 0},
	{"vin", []interface{}{}}, {"vout_list", []interface{}{}}, {"inputs", []interface{}{}}, {"outputs", []interface{}{}},
}

// jsonNumberKeys lists (sorted) the keys under which a document holds numbers.
func jsonNumberKeys(v interface{}, seen map[string]bool) []string {
	var walk func(v interface{}, key string)
	walk = func(v interface{}, key string) {
		switch t := v.(type) {
		case map[string]interface{}:
			for k, x := range t {
				walk(x, k)
			}
		case []interface{}:
			for _, x := range t {
				walk(x, key)
			}
		case string, nil, bool:
		default:
			seen[key] = true
		}
	}
	walk(v, "")
	var out []string
	for k := range seen {
		out = append(out, k)
	}
	sort.Strings(out)
	return out
}

// jsonAllNumbers copies a document, repeats the elements of every non-empty list up to 8 and replaces every number
// held under the given key.
func jsonAllNumbers(v interface{}, key, at string, num json.RawMessage) interface{} {
	switch t := v.(type) {
	case map[string]interface{}:
		m := map[string]interface{}{}
		for k, x := range t {
			m[k] = jsonAllNumbers(x, key, k, num)
		}
		return m
	case []interface{}:
		var a []interface{}
		for i := 0; len(t) > 0 && i < 8; i++ {
			a = append(a, jsonAllNumbers(t[i%len(t)], key, at, num))
		}
		if a == nil {
			a = []interface{}{}
		}
		return a
	case string, nil, bool, json.RawMessage:
		return t
	default:
		if at == key {
			return num
		}
		return t
	}
}

// jsonAt returns the value at a path (nil if the path does not exist).
func jsonAt(doc interface{}, p []string) interface{} {
	cur := doc
	for _, k := range p {
		if strings.HasPrefix(k, "[") {
			var idx int
			fmt.Sscanf(k, "[%d]", &idx)
			a, ok := cur.([]interface{})
			if !ok || idx >= len(a) {
				return nil
			}
			cur = a[idx]
		} else {
			m, ok := cur.(map[string]interface{})
			if !ok {
				return nil
			}
			cur = m[k]
		}
	}
	return cur
}

var jsonMutNames = []string{"delete", "null", "wrong-type", "non-hex", "odd-hex", "array-null", "negative", "huge-number", "empty-object", "long-hex", "short-hex", "empty-string", "very-long-hex", "fraction-9", "fraction-padded", "tiny-exp", "huge-exp", "neg-fraction", "int-2^24", "int-2^31", "int-2^62", "int-maxint64", "int-minint64", "exp+1e7", "exp-1e7", "frac-exp+1e7", "script:6a4c00", "script:01024c00", "script:4c0051ae", "script:truncated-push", "script:empty-pushes"}

// jsonPaths lists every path of a document in a deterministic order.
func jsonPaths(v interface{}, prefix []string) [][]string {
	var out [][]string
	switch t := v.(type) {
	case map[string]interface{}:
		keys := make([]string, 0, len(t))
		for k := range t {
			keys = append(keys, k)
		}
		sort.Strings(keys)
		for _, k := range keys {
			p := append(append([]string(nil), prefix...), k)
			out = append(out, p)
			out = append(out, jsonPaths(t[k], p)...)
		}
	case []interface{}:
		for i, e := range t {
			p := append(append([]string(nil), prefix...), fmt.Sprintf("[%d]", i))
			out = append(out, p)
			out = append(out, jsonPaths(e, p)...)
		}
	}
	return out
}

func deepCopy(v interface{}) interface{} {
	switch t := v.(type) {
	case map[string]interface{}:
		m := map[string]interface{}{}
		for k, e := range t {
			m[k] = deepCopy(e)
		}
		return m
	case []interface{}:
		a := make([]interface{}, len(t))
		for i, e := range t {
			a[i] = deepCopy(e)
		}
		return a
	}
	return v
}

// jsonMutate applies mutation mk at path p of a deep copy.
func jsonMutate(doc interface{}, p []string, mk int) (interface{}, bool) {
	root := deepCopy(doc)
	var parent interface{}
	cur := root
	for i, k := range p {
		parent = cur
		if strings.HasPrefix(k, "[") {
			var idx int
			fmt.Sscanf(k, "[%d]", &idx)
			cur = cur.([]interface{})[idx]
		} else {
			cur = cur.(map[string]interface{})[k]
		}
		_ = i
	}
	set := func(nv interface{}, del bool) {
		k := p[len(p)-1]
		if strings.HasPrefix(k, "[") {
			var idx int
			fmt.Sscanf(k, "[%d]", &idx)
			a := parent.([]interface{})
			if del {
				// replace the slice in the grandparent is awkward; mark as null instead
				a[idx] = nil
			} else {
				a[idx] = nv
			}
		} else {
			mm := parent.(map[string]interface{})
			if del {
				delete(mm, k)
			} else {
				mm[k] = nv
			}
		}
	}
	_, isStr := cur.(string)
	_, isArr := cur.([]interface{})
	_, isObj := cur.(map[string]interface{})
	isNum := !isStr && !isArr && !isObj && cur != nil
	switch mk {
	case 0:
		set(nil, true)
	case 1:
		set(nil, false)
	case 2:
		if isStr {
			set(12345, false)
		} else {
			set("x", false)
		}
	case 3:
		if !isStr {
			return nil, false
		}
		set("zz", false)
	case 4:
		if !isStr {
			return nil, false
		}
		set(cur.(string)+"a", false)
	case 5:
		if !isArr {
			return nil, false
		}
		set([]interface{}{nil}, false)
	case 6:
		if !isNum {
			return nil, false
		}
		set(-1, false)
	case 7:
		if !isNum {
			return nil, false
		}
		set(1e30, false)
	case 8:
		if !isObj {
			return nil, false
		}
		set(map[string]interface{}{}, false)
	case 9:
		if !isStr {
			return nil, false
		}
		set(cur.(string)+"abcd", false)
	case 10:
		if !isStr || len(cur.(string)) < 4 {
			return nil, false
		}
		set(cur.(string)[:(len(cur.(string))/4)*2], false)
	case 11:
		if !isStr {
			return nil, false
		}
		set("", false)
	case 12:
		if !isStr {
			return nil, false
		}
		set(cur.(string)+strings.Repeat("ab", 300), false)
	case 13, 14, 15, 16, 17:
		if !isNum {
			return nil, false
		}
		set(json.RawMessage([]string{"0.123456789", "12.500000000", "1e-9", "1e400", "-0.00000001"}[mk-13]), false)
	case 18, 19, 20, 21, 22:
		if !isNum {
			return nil, false
		}
		set(json.RawMessage([]string{"16777216", "2147483648", "4611686018427387904", "9223372036854775807", "-9223372036854775808"}[mk-18]), false)
	case 23, 24, 25:
		// a dozen bytes that name a number with ten million digits
		if !isNum {
			return nil, false
		}
		set(json.RawMessage([]string{"1e10000000", "1e-10000000", "0.1E+9999999"}[mk-23]), false)
	case 26, 27, 28, 29, 30:
		// a hex string that IS a script, of the kind script classifiers trip over (empty pushes written the long way,
		// pushes cut short): a decoder that starts looking INTO scripts must cope with all of them
		if !isStr {
			return nil, false
		}
		set([]string{"6a4c00", "01024c00", "4c0051ae", "76a94c", "004c004d00004e00000000ac"}[mk-26], false)
	}
	return root, true
}
