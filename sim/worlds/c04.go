package worlds

import (
	"bytes"
	"context"
	"encoding/binary"
	"encoding/hex"
	"encoding/json"
	"errors"
	"fmt"

	"github.com/libsv/go-bk/bec"
	"github.com/libsv/go-bk/crypto"
	"github.com/libsv/go-bt/v2"
	"github.com/libsv/go-bt/v2/bscript"
	"github.com/libsv/go-bt/v2/bscript/interpreter"
	"github.com/libsv/go-bt/v2/bscript/interpreter/scriptflag"
	"github.com/libsv/go-bt/v2/sighash"
	"github.com/libsv/go-bt/v2/unlocker"

	"verif/sim/kernel"
	"verif/sim/models"
)

// C04: several parties act in turn on one shared draft transaction (real
// *bt.Tx): they add/remove/move inputs and outputs, sign through the
// library's Unlocker path (which may fail), ship the draft over the wire
// formats, and tamper. After every event every library-signed input is
// verified by the real interpreter and compared with the commitment-set model.

type c04World struct{}

func init() {
	kernel.Register(&c04World{})
	signedProgram = c04SignedProgram
}

func (*c04World) ID() string   { return "C04" }
func (*c04World) Name() string { return "c04" }
func (*c04World) Runs(tier string) int {
	if tier == "thorough" {
		return 1500000
	}
	return 30000
}
func (*c04World) Info() kernel.WorldInfo {
	return kernel.WorldInfo{
		Level: "exploration",
		Rule: "one run = one seeded history of 5..40 events by 2..4 parties on one shared draft transaction: AddInput (append/insert), AddOutput, RemoveOutput, RemoveInput, Sign(i, one of 12 hash types or the default) through FillInput+unlocker.Simple, SignAll through FillAllInputs+UnlockerGetter, Move (re-index a signed input with its paired output), Unsign, Transit (Bytes / ExtendedBytes / hex round trip, previous outputs re-supplied from the ledger), " +
			"and the faults Tamper(version, locktime, any input's outpoint or sequence, any output's value or script, spent value / spent script as presented to the verifier) and SignerFails (unlocker or getter errors or sees a cancelled context at its k-th call). After EVERY event every library-signed input is executed by the real interpreter and must be accepted iff its commitment projection is unchanged. " +
			"distinct = distinct (event-kind sequence) histories; non-trivial = at least one signature was made and at least one later event happened.",
		Assumptions: []string{
			"SHA-256d collision freeness and ECDSA unforgeability (for 'projection changed => rejected')",
			"only P2PKH and P2PKH-inscription spends, the twelve standard hash types",
			"the commitment table in /verif/sim/models/commitset.go is the specification of coverage; it does not decide that digests equal the specified bytes (C02/C03)",
			"library JSON is not a transit format here (marshalling a draft with an unsigned input panics today, which is C16's subject)",
		},
		Real:        []string{"bt.Tx.FillInput", "bt.Tx.FillAllInputs", "unlocker.Simple / unlocker.Getter path", "bt.Tx.CalcInputSignatureHash / CalcInputPreimage / CalcInputPreimageLegacy", "bscript.NewP2PKHUnlockingScript", "interpreter.Engine.Execute (whole P2PKH path incl. opcodeCheckSig)", "wire codecs used by Transit", "bt.Tx.Clone", "go-bk ECDSA (RFC 6979)"},
		Stub:        []string{"ledger of UTXOs", "the parties' decision logic", "failing-signer decorators", "context cancellation"},
		SimTimeNote: "no clock is read; simulated time is not applicable to this world.",
	}
}

type c04Party struct {
	key  *bec.PrivateKey
	pub  []byte
	h160 []byte
}

type c04UTXO struct {
	txid   [32]byte // wire order
	vout   uint32
	value  uint64
	script []byte
	owner  int
}

type c04Meta struct {
	utxo   *c04UTXO
	signed bool
	flag   byte
	proj   []byte
}

type c04State struct {
	c       *kernel.RunCtx
	parties []*c04Party
	tx      *bt.Tx
	meta    []*c04Meta // aligned with tx.Inputs
	nUTXO   int
	kinds   []string
	sigs    int
	copyVia int                // 0 std bytes, 1 extended bytes, 2 Clone, 3 the draft object itself
	engine  interpreter.Engine // non-nil: one engine value re-used for every verification of the run
	simple  *unlocker.Simple   // non-nil: one unlocker object re-keyed for every signature of the run
	getter  *unlocker.Getter   // non-nil: one library getter re-keyed per locking script (wallet style)
	// withScripts: verifications pass WithScripts next to WithTx
	withScripts bool
	// scriptsOnlyViaOption: with withScripts, the previous output given to WithTx has no locking script of its own
	scriptsOnlyViaOption bool
	usedSpecialOutpoint  bool
	// sharePtr: places that hold the same script hold the same *bscript.Script object (one per party), the way a
	// wallet that keeps one script per address builds its transactions
	sharePtr bool
	shared   map[int]*bscript.Script
	// unrelated: between the parties' verifications the process (and the engine, if one is kept) also serves a caller
	// who evaluates unrelated scripts, most of which fail in some particular way
	unrelated bool
	unrelN    int
	// optOrder: how the verifier spells its flags (0 named options only; 1 a signature-policy WithFlags after them;
	// 2 the same before them; 3 everything in one WithFlags). Options combine, so all four mean the same.
	optOrder int
}

var c04Flags = []byte{0x41, 0x42, 0x43, 0xc1, 0xc2, 0xc3, 0x01, 0x02, 0x03, 0x81, 0x82, 0x83}

func flagName(f byte) string { return sighash.Flag(f).String() + fmt.Sprintf("(0x%02x)", f) }

func (s *c04State) newUTXO(owner int) *c04UTXO {
	c := s.c
	s.nUTXO++
	u := &c04UTXO{owner: owner, vout: uint32(c.Choose(4)), value: uint64(1000 + c.Choose(100000))}
	copy(u.txid[:], c.Bytes(32))
	u.txid[0] = byte(s.nUTXO) // distinct outpoints
	if !s.usedSpecialOutpoint && c.Bool(1, 10) {
		// an outpoint with nothing random about it (at most one per history, so outpoints stay distinct): the
		// null outpoint, or all-FF with index 0 — to the signing path these are outpoints like any other
		s.usedSpecialOutpoint = true
		if c.Bool(1, 2) {
			u.txid, u.vout = [32]byte{}, 0xffffffff
		} else {
			for j := range u.txid {
				u.txid[j] = 0xff
			}
			u.vout = 0
		}
		c.Count("probe.special_outpoint_utxo", 1)
	}
	u.script = p2pkh(s.parties[owner].h160)
	if c.Bool(1, 6) {
		// P2PKH-inscription locking script
		ct := []byte("text/plain")
		data := c.Bytes(1 + c.Choose(20))
		if c.Bool(1, 12) {
			// an inscription payload that needs a 4-byte push length (>= 65536 bytes)
			data = fillBytes(c, 65536+c.Choose(3000))
			c.Count("probe.inscription_over_64k", 1)
		}
		sc := append([]byte(nil), u.script...)
		sc = append(sc, 0x00, 0x63, 0x03, 0x6f, 0x72, 0x64, 0x51)
		sc = append(sc, pushOf(ct)...)
		sc = append(sc, 0x00)
		sc = append(sc, pushOf(data)...)
		sc = append(sc, 0x68)
		// optionally the enriched form: OP_RETURN followed by 0, 1, 2 or more raw bytes
		switch c.Pick(3, 1, 1, 1, 1) {
		case 1:
			sc = append(sc, 0x6a)
		case 2:
			sc = append(sc, 0x6a, 0x00)
		case 3:
			sc = append(sc, 0x6a, 0x01, 0x42)
		case 4:
			sc = append(append(sc, 0x6a), pushOf(c.Bytes(1+c.Choose(12)))...)
		}
		u.script = sc
		c.Count("probe.inscription_utxo", 1)
	}
	return u
}

// scriptFor returns the script object to put into the draft: a fresh copy, or (sharePtr histories, plain P2PKH of
// that party) the one object every place holding that script shares.
func (s *c04State) scriptFor(party int, script []byte) *bscript.Script {
	if !s.sharePtr || !sameBytes(script, p2pkh(s.parties[party].h160)) {
		return scriptPtr(script)
	}
	if sp, ok := s.shared[party]; ok && sameBytes(*sp, script) {
		s.c.Count("probe.one_script_object_in_two_places", 1)
		return sp
	}
	s.shared[party] = scriptPtr(script)
	return s.shared[party]
}

func (s *c04State) model() *models.CTx {
	t := &models.CTx{Version: s.tx.Version, Lock: s.tx.LockTime}
	for _, in := range s.tx.Inputs {
		var ci models.CIn
		id := in.PreviousTxID()
		for j := 0; j < 32 && j < len(id); j++ {
			ci.TxID[j] = id[31-j]
		}
		ci.Vout, ci.Seq = in.PreviousTxOutIndex, in.SequenceNumber
		t.Ins = append(t.Ins, ci)
	}
	for _, o := range s.tx.Outputs {
		t.Outs = append(t.Outs, models.COut{Sats: o.Satoshis, Script: append([]byte(nil), scriptBytes(o.LockingScript)...)})
	}
	return t
}

func sameModel(a, b *models.CTx) string {
	if a.Version != b.Version || a.Lock != b.Lock {
		return "version/locktime changed"
	}
	if len(a.Ins) != len(b.Ins) || len(a.Outs) != len(b.Outs) {
		return fmt.Sprintf("counts changed (%d/%d inputs, %d/%d outputs)", len(a.Ins), len(b.Ins), len(a.Outs), len(b.Outs))
	}
	for i := range a.Ins {
		if a.Ins[i] != b.Ins[i] {
			return fmt.Sprintf("input %d outpoint/sequence changed", i)
		}
	}
	for i := range a.Outs {
		if a.Outs[i].Sats != b.Outs[i].Sats || !bytes.Equal(a.Outs[i].Script, b.Outs[i].Script) {
			return fmt.Sprintf("output %d changed from {%d %x} to {%d %x}", i, a.Outs[i].Sats, a.Outs[i].Script, b.Outs[i].Sats, b.Outs[i].Script)
		}
	}
	return ""
}

// libCall runs a library call that must not change anything a signature could commit to
// (signing only installs unlocking scripts; a round trip preserves every field).
func (s *c04State) libCall(what string, f func()) {
	before := s.model()
	f()
	if s.c.Failed() {
		return
	}
	if d := sameModel(before, s.model()); d != "" {
		s.c.Fail("library-changed-draft", what, "%s changed the draft transaction: %s (history %v)", what, d, s.kinds)
	}
}

func displayID(w [32]byte) []byte {
	o := make([]byte, 32)
	for i := range o {
		o[i] = w[31-i]
	}
	return o
}

// resupply restores previous-output data on the draft from the ledger (what survives a standard-format transit).
func (s *c04State) resupply() {
	for i, in := range s.tx.Inputs {
		u := s.meta[i].utxo
		in.PreviousTxSatoshis = u.value
		in.PreviousTxScript = scriptPtr(u.script)
	}
}

// verifierCopy builds the transaction object the verifier works on.
func (s *c04State) verifierCopy() *bt.Tx {
	var cp *bt.Tx
	var err error
	switch s.copyVia {
	case 0:
		cp, err = bt.NewTxFromBytes(s.tx.Bytes())
	case 1:
		cp, err = bt.NewTxFromBytes(s.tx.ExtendedBytes())
	default:
		cp = s.tx.Clone()
	}
	if err != nil {
		panic("harness: draft does not round-trip: " + err.Error())
	}
	return cp
}

// verify executes input i against the presented spent output.
func (s *c04State) verify(tx *bt.Tx, i int, value uint64, script []byte, flag byte) (bool, string) {
	prevOut := &bt.Output{Satoshis: value, LockingScript: scriptPtr(script)}
	if s.withScripts && s.scriptsOnlyViaOption && i < len(tx.Inputs) && tx.Inputs[i].UnlockingScript != nil {
		// the spelling the option validation provides for: the scripts come through WithScripts, the previous output
		// handed to WithTx carries the value only
		prevOut.LockingScript = nil
	}
	opts := []interpreter.ExecutionOptionFunc{interpreter.WithTx(tx, i, prevOut)}
	// policy flags every library-made signature satisfies (canonical DER, low S, defined hash type)
	policy := scriptflag.VerifyLowS | scriptflag.VerifyDERSignatures | scriptflag.VerifyStrictEncoding | scriptflag.VerifyNullFail
	if s.optOrder == 2 {
		opts = append(opts, interpreter.WithFlags(policy))
	}
	if s.optOrder == 3 {
		all := policy | scriptflag.UTXOAfterGenesis
		if flag&0x40 != 0 {
			all |= scriptflag.EnableSighashForkID
		}
		opts = append(opts, interpreter.WithFlags(all))
	} else {
		opts = append(opts, interpreter.WithAfterGenesis())
	}
	if s.withScripts && i < len(tx.Inputs) && tx.Inputs[i].UnlockingScript != nil {
		// a caller that names the scripts explicitly as well (they must match what the transaction carries)
		opts = append(opts, interpreter.WithScripts(scriptPtr(script), scriptPtr(*tx.Inputs[i].UnlockingScript)))
	}
	if flag&0x40 != 0 && s.optOrder != 3 {
		opts = append(opts, interpreter.WithForkID())
	}
	if s.optOrder == 1 {
		opts = append(opts, interpreter.WithFlags(policy))
	}
	var err error
	s.c.Exec()
	eng := s.engine
	if eng == nil {
		eng = interpreter.NewEngine()
	}
	if s.unrelated {
		u := c04Unrelated[s.unrelN%len(c04Unrelated)]
		s.unrelN++
		_ = catch(func() {
			_ = eng.Execute(interpreter.WithScripts(scriptPtr(u.lock), scriptPtr(u.unlock)), interpreter.WithFlags(u.flags))
		})
		s.c.Count("probe.unrelated_execution_before_verification", 1)
	}
	if pn := catch(func() { err = eng.Execute(opts...) }); pn != "" {
		return false, "panic: " + pn
	}
	if err != nil {
		return false, err.Error()
	}
	return true, ""
}

// c04Unrelated: somebody else's scripts. Their outcomes do not matter here; what matters is that they leave nothing behind.
var c04Unrelated = []struct {
	unlock, lock []byte
	flags        scriptflag.Flag
}{
	{[]byte{0x51}, []byte{0x63, 0x6a}, scriptflag.UTXOAfterGenesis},                                                                    // 1 | IF RETURN            (open conditional at the end)
	{[]byte{0x51}, []byte{0x63, 0x6a, 0x67, 0x67}, scriptflag.UTXOAfterGenesis},                                                        // 1 | IF RETURN ELSE ELSE
	{[]byte{0x00}, []byte{0x63, 0x6a, 0x68, 0x51}, scriptflag.UTXOAfterGenesis},                                                        // 0 | IF RETURN ENDIF 1
	{[]byte{0x51}, []byte{0x6a}, scriptflag.Bip16 | scriptflag.VerifyStrictEncoding},                                                   // 1 | RETURN               (before genesis)
	{[]byte{0x51}, []byte{0x6a}, scriptflag.UTXOAfterGenesis},                                                                          // 1 | RETURN               (after genesis)
	{[]byte{0x05, 0xff, 0xff, 0xff, 0xff, 0x7f}, []byte{0x8b, 0x8b, 0x75, 0x51}, scriptflag.UTXOAfterGenesis},                          // long-number arithmetic
	{[]byte{0x01, 0x01, 0x01, 0x02}, []byte{0xac}, scriptflag.UTXOAfterGenesis | scriptflag.EnableSighashForkID},                       // CHECKSIG without a transaction
	{[]byte{0x51, 0x02, 0x51, 0x87}, append(append([]byte{0xa9, 0x14}, cryptoHash160([]byte{0x51, 0x87})...), 0x87), scriptflag.Bip16}, // a P2SH spend
	{[]byte{0x51, 0x6b}, []byte{0x6c, 0x76, 0x7c, 0x75}, 0},                                                                            // alt-stack traffic
	{[]byte{0x52}, []byte{0x76, 0x51, 0x98, 0x87}, scriptflag.UTXOAfterGenesis},                                                        // 2 | DUP 1 LSHIFT EQUAL   (in-place shift)
}

// checkAll is the invariant evaluated after every event.
func (s *c04State) checkAll(after string) {
	c := s.c
	m := s.model()
	defer func() {
		if !c.Failed() {
			if d := sameModel(m, s.model()); d != "" {
				c.Fail("library-changed-draft", "Execute", "verifying inputs changed the draft transaction: %s", d)
			}
		}
	}()
	for i, md := range s.meta {
		if !md.signed || c.Failed() {
			continue
		}
		u := md.utxo
		now := models.Projection(m, i, md.flag, u.value, u.script)
		want := bytes.Equal(now, md.proj)
		vtx := s.tx // copyVia 3: the verifier is handed the very object the parties work on (true spent output only)
		if s.copyVia != 3 {
			vtx = s.verifierCopy()
		}
		got, why := s.verify(vtx, i, u.value, u.script, md.flag)
		site := flagName(md.flag)
		if got && !want {
			c.Fail("accepts-changed-commitment", site, "after %s: input %d signed with %s is still accepted although something it commits to changed (history %v)", after, i, flagName(md.flag), s.kinds)
			return
		}
		if !got && want {
			c.Fail("rejects-unchanged-commitment", site, "after %s: input %d signed with %s is rejected (%s) although nothing it commits to changed (history %v)", after, i, flagName(md.flag), why, s.kinds)
			return
		}
		if want {
			c.Count("probe.verified_valid", 1)
		} else {
			c.Count("probe.verified_invalidated", 1)
		}
	}
}

type failingUnlocker struct {
	inner  bt.Unlocker
	failAt *int
	cancel context.CancelFunc
	viaCtx bool
}

var errC04Signer = errors.New("verif: injected signer failure")

func (f *failingUnlocker) UnlockingScript(ctx context.Context, tx *bt.Tx, p bt.UnlockerParams) (*bscript.Script, error) {
	*f.failAt--
	if *f.failAt < 0 {
		if f.viaCtx {
			f.cancel()
			return nil, ctx.Err()
		}
		return nil, fmt.Errorf("hsm: %w", errC04Signer)
	}
	return f.inner.UnlockingScript(ctx, tx, p)
}

type c04Getter struct {
	s       *c04State
	failAt  *int
	getFail int // fail in Unlocker() itself at this call (-1 never)
	calls   int
	cancel  context.CancelFunc
	viaCtx  bool
}

func (g *c04Getter) Unlocker(ctx context.Context, ls *bscript.Script) (bt.Unlocker, error) {
	g.calls++
	if g.getFail >= 0 && g.calls-1 == g.getFail {
		return nil, fmt.Errorf("keystore: %w", errC04Signer)
	}
	for _, p := range g.s.parties {
		if ls != nil && len(*ls) >= 23 && bytes.Equal((*ls)[3:23], p.h160) {
			var u bt.Unlocker = &unlocker.Simple{PrivateKey: p.key}
			if g.s.getter != nil {
				// wallet style: one library Getter, re-keyed for the owner of each locking script
				g.s.getter.PrivateKey = p.key
				lu, err := g.s.getter.Unlocker(ctx, ls)
				if err != nil {
					return nil, err
				}
				u = lu
			}
			if g.failAt != nil {
				u = &failingUnlocker{inner: u, failAt: g.failAt, cancel: g.cancel, viaCtx: g.viaCtx}
			}
			return u, nil
		}
	}
	return nil, errors.New("verif: no key for script")
}

func (s *c04State) recordSigned(i int, flag byte) {
	md := s.meta[i]
	md.signed, md.flag = true, flag
	md.proj = models.Projection(s.model(), i, flag, md.utxo.value, md.utxo.script)
	s.sigs++
}

// inputCountSweep: the number of inputs walks through 1..1024 with the run index (every count is visited dozens of
// times per quick check). One input is signed; then the outpoint of one OTHER input — the last one, the first one or a
// seeded one — is changed on the verifier's copy. Whether the signature survives is decided by the model alone.
func (w *c04World) inputCountSweep(c *kernel.RunCtx) {
	n := 1 + (c.RunIdx/8)%1024
	s := &c04State{c: c, tx: bt.NewTx(), shared: map[int]*bscript.Script{}}
	c.Begin("sweep")
	kb := c.Bytes(32)
	kb[0] = kb[0]&0x7f | 1
	idx := c.Choose(n)
	flag := c04Flags[c.Choose(len(c04Flags))]
	victim := []int{n - 1, 0, c.Choose(n)}[c.Choose(3)]
	nout := c.Choose(3)
	c.End()
	priv, pub := bec.PrivKeyFromBytes(bec.S256(), kb)
	p := &c04Party{key: priv, pub: pub.SerialiseCompressed()}
	p.h160 = crypto.Hash160(p.pub)
	s.parties = []*c04Party{p}
	lock := p2pkh(p.h160)
	for i := 0; i < n; i++ {
		u := &c04UTXO{owner: 0, vout: uint32(i % 7), value: uint64(1000 + i), script: lock}
		u.txid[0], u.txid[1], u.txid[31] = byte(i), byte(i>>8), 0x5a
		if err := s.tx.FromUTXOs(&bt.UTXO{TxID: displayID(u.txid), Vout: u.vout, Satoshis: u.value, LockingScript: scriptPtr(lock)}); err != nil {
			c.Fail("api", "FromUTXOs", "FromUTXOs failed: %v", err)
			return
		}
		s.meta = append(s.meta, &c04Meta{utxo: u})
	}
	for i := 0; i < nout; i++ {
		s.tx.AddOutput(&bt.Output{Satoshis: uint64(10 + i), LockingScript: scriptPtr(lock)})
	}
	c.Exec()
	if err := s.tx.FillInput(context.Background(), &unlocker.Simple{PrivateKey: priv}, bt.UnlockerParams{InputIdx: uint32(idx), SigHashFlags: sighash.Flag(flag)}); err != nil {
		c.Fail("sign-failed", flagName(flag), "FillInput(%d of %d inputs, %s) failed: %v", idx, n, flagName(flag), err)
		return
	}
	u := s.meta[idx].utxo
	before := models.Projection(s.model(), idx, flag, u.value, u.script)
	if ok, why := s.verify(s.verifierCopy(), idx, u.value, u.script, flag); !ok {
		c.Fail("rejects-unchanged-commitment", flagName(flag), "input %d of a transaction with %d inputs, signed with %s, is rejected (%s)", idx, n, flagName(flag), why)
		return
	}
	if victim == idx {
		return
	}
	// the verifier is shown a transaction in which one other input spends a different output
	s.tx.Inputs[victim].PreviousTxOutIndex ^= 0x10
	after := models.Projection(s.model(), idx, flag, u.value, u.script)
	want := bytes.Equal(before, after)
	got, why := s.verify(s.verifierCopy(), idx, u.value, u.script, flag)
	if got != want {
		c.Fail(map[bool]string{true: "accepts-changed-commitment", false: "rejects-unchanged-commitment"}[got], flagName(flag),
			"%d inputs, input %d signed with %s, then the outpoint of input %d changed: accepted=%v (%s), model says %v", n, idx, flagName(flag), victim, got, why, want)
		return
	}
	c.Count("probe.input_count_sweep", 1)
}

// keyChurn: what a long-lived validating process meets. A few parties sign a spend each; the process then checks
// signatures for tens of thousands of OTHER public keys (bare pay-to-public-key spends with junk signatures: their
// verdicts do not matter, what matters is that the interpreter has parsed that many distinct keys); then the first
// parties' untouched transactions are verified again, their keys sign afresh, and one signature is presented for
// another party's key. One run per check, a few seconds.
func (w *c04World) keyChurn(c *kernel.RunCtx) {
	s := &c04State{c: c, tx: bt.NewTx(), shared: map[int]*bscript.Script{}}
	c.Begin("churn")
	seed := c.U64n(1 << 62)
	nkeys := 66000 + c.Choose(6000)
	flag := c04Flags[c.Choose(len(c04Flags))]
	c.End()
	type spend struct {
		priv  *bec.PrivateKey
		lock  []byte
		tx    *bt.Tx
		value uint64
	}
	var first []*spend
	mk := func(i int) *spend {
		kb := make([]byte, 32)
		binary.BigEndian.PutUint64(kb[8:], seed)
		binary.BigEndian.PutUint64(kb[24:], uint64(i)+1)
		priv, pub := bec.PrivKeyFromBytes(bec.S256(), kb)
		sp := &spend{priv: priv, lock: p2pkh(crypto.Hash160(pub.SerialiseCompressed())), tx: bt.NewTx(), value: uint64(5000 + i)}
		txid := make([]byte, 32)
		txid[0], txid[5] = byte(i+1), 0x77
		if err := sp.tx.FromUTXOs(&bt.UTXO{TxID: txid, Vout: uint32(i), Satoshis: sp.value, LockingScript: scriptPtr(sp.lock)}); err != nil {
			c.Fail("api", "FromUTXOs", "FromUTXOs failed: %v", err)
			return nil
		}
		sp.tx.AddOutput(&bt.Output{Satoshis: 900, LockingScript: scriptPtr(sp.lock)})
		return sp
	}
	sign := func(sp *spend, when string) bool {
		c.Exec()
		if err := sp.tx.FillInput(context.Background(), &unlocker.Simple{PrivateKey: sp.priv}, bt.UnlockerParams{InputIdx: 0, SigHashFlags: sighash.Flag(flag)}); err != nil {
			c.Fail("sign-failed", flagName(flag), "FillInput (%s) failed: %v", when, err)
			return false
		}
		return true
	}
	check := func(sp *spend, lock []byte, want bool, when string) bool {
		got, why := s.verify(sp.tx.Clone(), 0, sp.value, lock, flag)
		if got != want {
			c.Fail(map[bool]string{true: "accepts-changed-commitment", false: "rejects-unchanged-commitment"}[got], flagName(flag),
				"%s: accepted=%v (%s), expected %v", when, got, why, want)
			return false
		}
		return true
	}
	for i := 0; i < 3; i++ {
		sp := mk(i)
		if sp == nil || !sign(sp, "before the churn") || !check(sp, sp.lock, true, "a freshly signed spend") {
			return
		}
		first = append(first, sp)
	}
	// other people's keys: x coordinates from a private generator (about half of them are on the curve)
	g := kernel.NewXoshiro(seed ^ 0x6b657973)
	carrier := mk(100)
	if carrier == nil {
		return
	}
	junk := []byte{0x30, 0x06, 0x02, 0x01, 0x01, 0x02, 0x01, 0x01, flag}
	us := append([]byte{byte(len(junk))}, junk...)
	carrier.tx.Inputs[0].UnlockingScript = scriptPtr(us)
	eng := interpreter.NewEngine()
	parsed := 0
	for parsed < nkeys && !c.Failed() {
		pk := make([]byte, 33)
		pk[0] = 2 + byte(g.Next()&1)
		for j := 1; j < 33; j += 8 {
			binary.BigEndian.PutUint64(pk[j:], g.Next())
		}
		if _, err := bec.ParsePubKey(pk, bec.S256()); err != nil {
			continue
		}
		parsed++
		lock := append(append([]byte{33}, pk...), 0xac)
		opts := []interpreter.ExecutionOptionFunc{interpreter.WithTx(carrier.tx, 0, &bt.Output{Satoshis: carrier.value, LockingScript: scriptPtr(lock)}), interpreter.WithAfterGenesis()}
		if flag&0x40 != 0 {
			opts = append(opts, interpreter.WithForkID())
		}
		if parsed%4096 == 1 {
			c.Exec()
		}
		_ = catch(func() { _ = eng.Execute(opts...) })
	}
	c.Count("probe.key_churn_distinct_public_keys", parsed)
	for i, sp := range first {
		if !check(sp, sp.lock, true, fmt.Sprintf("the untouched spend of party %d, verified again after the process has checked signatures for %d other public keys", i, parsed)) {
			return
		}
	}
	for i, sp := range first {
		sp.tx.Outputs[0].Satoshis++
		if !sign(sp, "after the churn") || !check(sp, sp.lock, true, fmt.Sprintf("party %d signs afresh after %d other public keys were seen", i, parsed)) {
			return
		}
		// the same signature presented for the next party's output must fail
		other := first[(i+1)%len(first)]
		if !check(sp, other.lock, false, fmt.Sprintf("party %d's signature presented against party %d's locking script after the churn", i, (i+1)%len(first))) {
			return
		}
	}
	c.Count("probe.key_churn_runs", 1)
}

func (w *c04World) Run(c *kernel.RunCtx) {
	if c.RunIdx%30000 == 3 {
		w.keyChurn(c)
		return
	}
	if c.RunIdx%8 == 5 {
		w.inputCountSweep(c)
		return
	}
	s := &c04State{c: c, tx: bt.NewTx()}
	c.Begin("setup")
	np := 2 + c.Choose(3)
	for i := 0; i < np; i++ {
		kb := c.Bytes(32)
		kb[0] |= 1
		kb[0] &= 0x7f
		priv, pub := bec.PrivKeyFromBytes(bec.S256(), kb)
		p := &c04Party{key: priv, pub: pub.SerialiseCompressed()}
		p.h160 = crypto.Hash160(p.pub)
		s.parties = append(s.parties, p)
	}
	s.copyVia = c.Choose(4)
	if c.Bool(1, 2) {
		s.engine = interpreter.NewEngine()
		c.Count("probe.engine_reused_across_verifications", 1)
		if c.Bool(1, 2) {
			// the engine already served a caller that evaluates bare scripts (no transaction context)
			one := scriptPtr([]byte{0x51})
			_ = catch(func() { _ = s.engine.Execute(interpreter.WithScripts(one, one), interpreter.WithAfterGenesis()) })
		}
	}
	s.withScripts = c.Bool(1, 3)
	s.scriptsOnlyViaOption = c.Bool(1, 2)
	s.optOrder = c.Pick(3, 1, 1, 1)
	s.sharePtr = c.Bool(1, 3)
	s.shared = map[int]*bscript.Script{}
	s.unrelated = c.Bool(1, 3)
	if c.Bool(1, 2) {
		s.simple = &unlocker.Simple{}
		s.getter = &unlocker.Getter{}
		c.Count("probe.unlocker_objects_reused", 1)
	}
	s.tx.Version = []uint32{1, 2, uint32(c.U64n(1 << 32))}[c.Pick(4, 2, 1)]
	if c.Bool(1, 3) {
		s.tx.LockTime = uint32(c.U64n(1 << 32))
	}
	// swarm: per-run event weights
	wts := make([]int, 13)
	for i := range wts {
		wts[i] = 1 + c.Choose(6)
		if c.Bool(1, 5) {
			wts[i] = 0
		}
	}
	wts[0] += 3 // AddInput
	wts[1] += 2 // AddOutput
	wts[4] += 4 // Sign
	nEvents := 5 + c.Choose(36)
	c.End()
	sigsAt := -1
	for ev := 0; ev < nEvents && !c.Failed(); ev++ {
		c.Begin("event")
		kind := c.Pick(wts...)
		name := w.event(s, kind)
		c.End()
		if name == "" {
			continue
		}
		s.kinds = append(s.kinds, name)
		c.Logf("event %d: %s  (inputs %d outputs %d)", ev, name, len(s.tx.Inputs), len(s.tx.Outputs))
		if c.Failed() {
			break
		}
		s.checkAll(name)
		if s.sigs > 0 && sigsAt < 0 {
			sigsAt = ev
		}
	}
	if sigsAt >= 0 && len(s.kinds) > sigsAt+1 {
		key := ""
		for _, k := range s.kinds {
			key += k[:3] + "."
		}
		c.Distinct(key)
	}
	if c.WantSample() && s.sigs > 1 && len(s.kinds) > 6 {
		c.Sample(map[string]interface{}{"parties": np, "history": s.kinds, "final_inputs": len(s.tx.Inputs), "final_outputs": len(s.tx.Outputs), "final_tx_hex": hex.EncodeToString(s.tx.Bytes())})
	}
}

// event applies one event to the shared draft; returns its name ("" if not applicable now).
func (w *c04World) event(s *c04State, kind int) string {
	c := s.c
	tx := s.tx
	nin, nout := len(tx.Inputs), len(tx.Outputs)
	switch kind {
	case 0: // AddInput
		if nin >= 6 {
			return ""
		}
		owner := c.Choose(len(s.parties))
		u := s.newUTXO(owner)
		md := &c04Meta{utxo: u}
		if c.Bool(2, 3) || nin == 0 {
			if err := tx.FromUTXOs(&bt.UTXO{TxID: displayID(u.txid), Vout: u.vout, Satoshis: u.value, LockingScript: scriptPtr(u.script)}); err != nil {
				c.Fail("api", "FromUTXOs", "FromUTXOs failed: %v", err)
				return "AddInput"
			}
			if c.Bool(1, 3) {
				tx.Inputs[len(tx.Inputs)-1].SequenceNumber = uint32(c.U64n(1 << 32))
			}
			s.meta = append(s.meta, md)
			return fmt.Sprintf("AddInput(append,p%d)", owner)
		}
		pos := c.Choose(nin + 1)
		in := &bt.Input{PreviousTxOutIndex: u.vout, PreviousTxSatoshis: u.value, PreviousTxScript: s.scriptFor(owner, u.script), SequenceNumber: uint32(0xffffffff - c.Choose(3))}
		_ = in.PreviousTxIDAdd(displayID(u.txid))
		tx.Inputs = append(tx.Inputs[:pos:pos], append([]*bt.Input{in}, tx.Inputs[pos:]...)...)
		s.meta = append(s.meta[:pos:pos], append([]*c04Meta{md}, s.meta[pos:]...)...)
		return fmt.Sprintf("AddInput(insert@%d,p%d)", pos, owner)
	case 1: // AddOutput
		if nout >= 6 {
			return ""
		}
		payee := c.Choose(len(s.parties))
		o := &bt.Output{Satoshis: uint64(c.Choose(50000)), LockingScript: s.scriptFor(payee, p2pkh(s.parties[payee].h160))}
		if c.Bool(1, 5) {
			o.LockingScript = scriptPtr(append([]byte{0x00, 0x6a}, c.Bytes(c.Choose(30))...))
		}
		if c.Bool(2, 3) {
			tx.AddOutput(o)
			return "AddOutput(append)"
		}
		pos := c.Choose(nout + 1)
		tx.Outputs = append(tx.Outputs[:pos:pos], append([]*bt.Output{o}, tx.Outputs[pos:]...)...)
		return fmt.Sprintf("AddOutput(insert@%d)", pos)
	case 2: // RemoveOutput
		if nout == 0 {
			return ""
		}
		pos := c.Choose(nout)
		tx.Outputs = append(tx.Outputs[:pos:pos], tx.Outputs[pos+1:]...)
		return fmt.Sprintf("RemoveOutput(%d)", pos)
	case 3: // RemoveInput
		if nin == 0 {
			return ""
		}
		pos := c.Choose(nin)
		tx.Inputs = append(tx.Inputs[:pos:pos], tx.Inputs[pos+1:]...)
		s.meta = append(s.meta[:pos:pos], s.meta[pos+1:]...)
		return fmt.Sprintf("RemoveInput(%d)", pos)
	case 4: // Sign
		if nin == 0 {
			return ""
		}
		i := c.Choose(nin)
		fi := c.Choose(len(c04Flags) + 1)
		var flag byte
		if fi < len(c04Flags) {
			flag = c04Flags[fi]
		}
		s.resupply()
		p := s.parties[s.meta[i].utxo.owner]
		var err error
		c.Exec()
		var pn string
		direct := c.Bool(1, 3)
		ul := &unlocker.Simple{PrivateKey: p.key}
		if s.simple != nil {
			ul = s.simple // one unlocker object for the whole run, pointed at the signing party's key
			ul.PrivateKey = p.key
		}
		s.libCall("FillInput", func() {
			pn = catch(func() {
				if direct {
					// the unlocker used directly (as the repository's examples do), then installed on the input
					var us *bscript.Script
					us, err = ul.UnlockingScript(context.Background(), tx, bt.UnlockerParams{InputIdx: uint32(i), SigHashFlags: sighash.Flag(flag)})
					if err == nil {
						err = tx.InsertInputUnlockingScript(uint32(i), us)
					}
					return
				}
				err = tx.FillInput(context.Background(), ul, bt.UnlockerParams{InputIdx: uint32(i), SigHashFlags: sighash.Flag(flag)})
			})
		})
		name := fmt.Sprintf("Sign(%d,%s)", i, flagName(flag))
		if direct {
			name = fmt.Sprintf("SignDirect(%d,%s)", i, flagName(flag))
			c.Count("probe.direct_unlocker_signature", 1)
		}
		if flag == 0 {
			flag = 0x41
			name = fmt.Sprintf("%s(%d,default)", map[bool]string{true: "SignDirect", false: "Sign"}[direct], i)
			c.Count("probe.default_flag_signature", 1)
		}
		if pn != "" || err != nil {
			c.Fail("sign-failed", flagName(flag), "FillInput(%d, %s) failed: panic=%q err=%v", i, flagName(flag), pn, err)
			return name
		}
		if flag&0x40 == 0 && flag&0x1f == 3 && i >= len(tx.Outputs) {
			c.Count("probe.legacy_single_bug_signature", 1)
		}
		if flag&0x40 != 0 && flag&0x1f == 3 && i >= len(tx.Outputs) {
			c.Count("probe.forkid_single_without_output", 1)
		}
		s.recordSigned(i, flag)
		return name
	case 5: // SignAll (fault-free)
		if nin == 0 {
			return ""
		}
		s.resupply()
		var err error
		c.Exec()
		var pn string
		s.libCall("FillAllInputs", func() {
			pn = catch(func() { err = tx.FillAllInputs(context.Background(), &c04Getter{s: s, getFail: -1}) })
		})
		if pn != "" || err != nil {
			c.Fail("sign-failed", "FillAllInputs", "FillAllInputs failed: panic=%q err=%v", pn, err)
			return "SignAll"
		}
		for i := range s.meta {
			s.recordSigned(i, 0x41)
		}
		return "SignAll"
	case 6: // Move: re-index a signed input together with its paired output
		if nin < 2 {
			return ""
		}
		from, to := c.Choose(nin), c.Choose(nin)
		if from == to {
			return ""
		}
		in, md := tx.Inputs[from], s.meta[from]
		tx.Inputs = append(tx.Inputs[:from:from], tx.Inputs[from+1:]...)
		s.meta = append(s.meta[:from:from], s.meta[from+1:]...)
		tx.Inputs = append(tx.Inputs[:to:to], append([]*bt.Input{in}, tx.Inputs[to:]...)...)
		s.meta = append(s.meta[:to:to], append([]*c04Meta{md}, s.meta[to:]...)...)
		moved := ""
		if from < nout && to < nout {
			o := tx.Outputs[from]
			tx.Outputs = append(tx.Outputs[:from:from], tx.Outputs[from+1:]...)
			tx.Outputs = append(tx.Outputs[:to:to], append([]*bt.Output{o}, tx.Outputs[to:]...)...)
			moved = "+output"
		}
		return fmt.Sprintf("Move(%d->%d%s)", from, to, moved)
	case 7: // Unsign
		if nin == 0 {
			return ""
		}
		i := c.Choose(nin)
		if c.Bool(1, 2) {
			tx.Inputs[i].UnlockingScript = nil
		} else {
			tx.Inputs[i].UnlockingScript = scriptPtr(nil)
		}
		s.meta[i].signed = false
		return fmt.Sprintf("Unsign(%d)", i)
	case 8: // Transit
		via := c.Choose(3)
		var rt *bt.Tx
		var err error
		c.Exec()
		pn := catch(func() {
			switch via {
			case 0:
				rt, err = bt.NewTxFromBytes(tx.Bytes())
			case 1:
				rt, err = bt.NewTxFromBytes(tx.ExtendedBytes())
			default:
				rt, err = bt.NewTxFromString(tx.String())
			}
		})
		if pn != "" || err != nil {
			c.Fail("transit", "codec", "draft does not survive transit %d: panic=%q err=%v", via, pn, err)
			return "Transit"
		}
		before := s.model()
		s.tx = rt
		s.resupply()
		if d := sameModel(before, s.model()); d != "" {
			c.Fail("transit", "codec", "transit %d changed the draft: %s", via, d)
		}
		return fmt.Sprintf("Transit(%s)", []string{"bytes", "extended", "hex"}[via])
	case 9: // Tamper (persistent, on the draft)
		return w.tamper(s)
	case 10: // Tamper what is presented to the verifier (transient)
		return w.tamperPresentation(s)
	case 11: // SignerFails
		return w.signerFails(s)
	case 12: // Inspect: other features of the library are used on the draft; none of them may change it
		which := c.Choose(7)
		name := []string{"TxID", "Size+EstimateSize", "json.Marshal", "NodeJSON", "Clone", "fee getters", "String"}[which]
		s.libCall("Inspect("+name+")", func() {
			_ = catch(func() {
				switch which {
				case 0:
					_ = tx.TxID()
					_ = tx.TxIDBytes()
				case 1:
					_ = tx.Size()
					_, _ = tx.EstimateSize()
					_, _ = tx.EstimateSizeWithTypes()
				case 2:
					_, _ = json.Marshal(tx)
				case 3:
					_, _ = json.Marshal(tx.NodeJSON())
				case 4:
					_ = tx.Clone()
				case 5:
					fq := bt.NewFeeQuote()
					_, _ = tx.IsFeePaidEnough(fq)
					_, _ = tx.EstimateIsFeePaidEnough(fq)
					_, _ = tx.EstimateFeesPaid(fq)
					_ = tx.TotalInputSatoshis()
					_ = tx.TotalOutputSatoshis()
				default:
					_ = tx.String()
					_ = tx.ExtendedBytes()
					_ = tx.BytesWithClearedInputs(0, []byte{0x51})
				}
			})
		})
		return "Inspect(" + name + ")"
	}
	return ""
}

func (w *c04World) tamper(s *c04State) string {
	c := s.c
	tx := s.tx
	c.Count("fault.tamper", 1)
	switch f := c.Pick(2, 2, 3, 3, 3, 3); f {
	case 0:
		tx.Version ^= 1 << uint(c.Choose(32))
		return "Tamper(version)"
	case 1:
		tx.LockTime ^= 1 << uint(c.Choose(32))
		return "Tamper(locktime)"
	case 2:
		if len(tx.Inputs) == 0 {
			return ""
		}
		j := c.Choose(len(tx.Inputs))
		if len(tx.Inputs) > 1 && c.Bool(1, 4) {
			// another input now names exactly the same outpoint (only the signatures that cover the
			// outpoint list are affected)
			k := (j + 1 + c.Choose(len(tx.Inputs)-1)) % len(tx.Inputs)
			tx.Inputs[j].PreviousTxOutIndex = tx.Inputs[k].PreviousTxOutIndex
			_ = tx.Inputs[j].PreviousTxIDAdd(append([]byte(nil), tx.Inputs[k].PreviousTxID()...))
			return fmt.Sprintf("Tamper(outpoint of input %d := outpoint of input %d)", j, k)
		}
		if c.Bool(1, 2) {
			tx.Inputs[j].PreviousTxOutIndex ^= 1 << uint(c.Choose(32))
		} else if c.Bool(1, 2) {
			id := append([]byte(nil), tx.Inputs[j].PreviousTxID()...)
			id[c.Choose(32)] ^= 1 << uint(c.Choose(8))
			_ = tx.Inputs[j].PreviousTxIDAdd(id)
		} else {
			// edited in place through the slice the getter hands out
			id := tx.Inputs[j].PreviousTxID()
			id[c.Choose(32)] ^= 1 << uint(c.Choose(8))
		}
		return fmt.Sprintf("Tamper(outpoint of input %d)", j)
	case 3:
		if len(tx.Inputs) == 0 {
			return ""
		}
		j := c.Choose(len(tx.Inputs))
		tx.Inputs[j].SequenceNumber ^= 1 << uint(c.Choose(32))
		return fmt.Sprintf("Tamper(sequence of input %d)", j)
	case 4:
		if len(tx.Outputs) == 0 {
			return ""
		}
		j := c.Choose(len(tx.Outputs))
		tx.Outputs[j].Satoshis ^= 1 << uint(c.Choose(40))
		return fmt.Sprintf("Tamper(value of output %d)", j)
	default:
		if len(tx.Outputs) == 0 {
			return ""
		}
		j := c.Choose(len(tx.Outputs))
		sc := append([]byte(nil), *tx.Outputs[j].LockingScript...)
		if len(sc) == 0 || c.Bool(1, 4) {
			sc = append(sc, 0x61)
		} else {
			sc[c.Choose(len(sc))] ^= 1 << uint(c.Choose(8))
		}
		tx.Outputs[j].LockingScript = scriptPtr(sc)
		return fmt.Sprintf("Tamper(script of output %d)", j)
	}
}

// tamperPresentation verifies signed inputs once against a wrong spent output; the draft is not changed.
func (w *c04World) tamperPresentation(s *c04State) string {
	c := s.c
	var cand []int
	for i, md := range s.meta {
		if md.signed {
			cand = append(cand, i)
		}
	}
	if len(cand) == 0 {
		return ""
	}
	i := cand[c.Choose(len(cand))]
	md := s.meta[i]
	u := md.utxo
	m := s.model()
	stillValid := bytes.Equal(models.Projection(m, i, md.flag, u.value, u.script), md.proj)
	c.Count("fault.tamper_presentation", 1)
	if c.Bool(1, 2) {
		v := u.value ^ (1 << uint(c.Choose(40)))
		switch c.Pick(4, 2, 1, 1) {
		case 1:
			v = 0 // "no amount given"
		case 2:
			v = u.value + 1
		case 3:
			v = ^uint64(0)
		}
		want := stillValid && bytes.Equal(models.Projection(m, i, md.flag, v, u.script), md.proj)
		got, why := s.verify(s.verifierCopy(), i, v, u.script, md.flag)
		if got != want {
			c.Fail(map[bool]string{true: "accepts-changed-commitment", false: "rejects-unchanged-commitment"}[got], flagName(md.flag),
				"input %d signed with %s, verifier shown spent value %d instead of %d: accepted=%v (%s), model says %v (history %v)", i, flagName(md.flag), v, u.value, got, why, want, s.kinds)
		}
		return fmt.Sprintf("Present(wrong value,input %d)", i)
	}
	sc := append([]byte(nil), u.script...)
	switch c.Pick(2, 2, 2) {
	case 0:
		sc = append(sc, 0x61) // trailing OP_NOP: the P2PKH template still runs, the script code differs
	case 1:
		sc[3+c.Choose(20)] ^= 1 << uint(c.Choose(8))
	default:
		// the same program with the key-hash push re-encoded non-minimally (OP_PUSHDATA1 0x14): it executes
		// identically, but the script code — which every hash type commits to — is a different byte string
		sc = append(append(append([]byte(nil), sc[:2]...), 0x4c), sc[2:]...)
	}
	// (legacy SINGLE without a matching output commits to nothing, not even the script code)
	want := stillValid && bytes.Equal(models.Projection(m, i, md.flag, u.value, sc), md.proj)
	got, why := s.verify(s.verifierCopy(), i, u.value, sc, md.flag)
	if got && !want {
		c.Fail("accepts-changed-commitment", flagName(md.flag), "input %d signed with %s is accepted against a different spent script %x (true script %x) (%s)", i, flagName(md.flag), sc, u.script, why)
	}
	return fmt.Sprintf("Present(wrong script,input %d)", i)
}

// signerFails: FillAllInputs with a signer that fails (or is cancelled) at its k-th call.
func (w *c04World) signerFails(s *c04State) string {
	c := s.c
	tx := s.tx
	nin := len(tx.Inputs)
	if nin == 0 {
		return ""
	}
	s.resupply()
	k := c.Choose(nin)
	mode := c.Choose(3) // 0 unlocker error, 1 context cancelled, 2 getter error
	ctx, cancel := context.WithCancel(context.Background())
	defer cancel()
	failAt := k
	g := &c04Getter{s: s, getFail: -1, cancel: cancel, viaCtx: mode == 1}
	if mode == 2 {
		g.getFail = k
	} else {
		g.failAt = &failAt
	}
	before := make([][]byte, nin)
	for i, in := range tx.Inputs {
		before[i] = append([]byte(nil), scriptBytes(in.UnlockingScript)...)
	}
	var err error
	c.Exec()
	c.Count("fault.signer_fails", 1)
	var pn string
	s.libCall("FillAllInputs(failing signer)", func() { pn = catch(func() { err = tx.FillAllInputs(ctx, g) }) })
	name := fmt.Sprintf("SignerFails(call %d,%s)", k, []string{"error", "cancel", "getter"}[mode])
	if pn != "" {
		c.Fail("sign-failed", "FillAllInputs", "FillAllInputs panicked when the signer failed at call %d: %s", k, pn)
		return name
	}
	wantErr := errC04Signer
	if mode == 1 {
		wantErr = context.Canceled
	}
	if !errors.Is(err, wantErr) {
		c.Fail("signer-error-lost", "FillAllInputs", "signer failed at call %d (%s) but FillAllInputs returned %v", k, name, err)
		return name
	}
	// Whatever the failed call did sign must be a valid ALL|FORKID signature. Which inputs those are is the
	// library's business (up to the failure point, or none at all in an all-or-nothing implementation): an input
	// counts as signed by this call iff its unlocking script changed.
	for i := 0; i < nin; i++ {
		now := scriptBytes(tx.Inputs[i].UnlockingScript)
		if !bytes.Equal(now, before[i]) && len(now) > 0 {
			s.recordSigned(i, 0x41)
			c.Count("probe.signed_before_signer_failed", 1)
		}
	}
	if c.Bool(1, 2) {
		// retry with a healthy signer must complete
		c.Exec()
		if pn := catch(func() { err = tx.FillAllInputs(context.Background(), &c04Getter{s: s, getFail: -1}) }); pn != "" || err != nil {
			c.Fail("sign-failed", "FillAllInputs", "retry after a signer failure did not complete: panic=%q err=%v", pn, err)
			return name
		}
		for i := range s.meta {
			s.recordSigned(i, 0x41)
		}
		name += "+retry"
	}
	return name
}

// c04SignedProgram hands C19/C18-B a library-signed P2PKH spend (valid or deliberately invalidated).
func c04SignedProgram(c *kernel.RunCtx) *program {
	c.Begin("signed-program")
	defer c.End()
	s := &c04State{c: c, tx: bt.NewTx()}
	s.tx.Version = []uint32{1, 2, 0x7fffffff}[c.Pick(3, 2, 1)]
	kb := c.Bytes(32)
	kb[0] = kb[0]&0x7f | 1
	priv, pub := bec.PrivKeyFromBytes(bec.S256(), kb)
	p := &c04Party{key: priv, pub: pub.SerialiseCompressed()}
	p.h160 = crypto.Hash160(p.pub)
	s.parties = []*c04Party{p}
	nin := 1 + c.Choose(3)
	for i := 0; i < nin; i++ {
		u := s.newUTXO(0)
		_ = s.tx.FromUTXOs(&bt.UTXO{TxID: displayID(u.txid), Vout: u.vout, Satoshis: u.value, LockingScript: scriptPtr(u.script)})
		s.meta = append(s.meta, &c04Meta{utxo: u})
	}
	for i := c.Choose(4); i > 0; i-- {
		s.tx.AddOutput(&bt.Output{Satoshis: uint64(c.Choose(5000)), LockingScript: scriptPtr(p2pkh(p.h160))})
	}
	idx := c.Choose(nin)
	flag := c04Flags[c.Choose(len(c04Flags))]
	if err := s.tx.FillInput(context.Background(), &unlocker.Simple{PrivateKey: priv}, bt.UnlockerParams{InputIdx: uint32(idx), SigHashFlags: sighash.Flag(flag)}); err != nil {
		return nil
	}
	if c.Bool(1, 3) {
		s.tx.LockTime ^= 1 // invalidate (every standard type commits to locktime)
	}
	u := s.meta[idx].utxo
	pr := &program{unlock: append([]byte(nil), *s.tx.Inputs[idx].UnlockingScript...), lock: u.script, amount: u.value, txBytes: s.tx.ExtendedBytes(), inIdx: idx, src: "signed-p2pkh " + flagName(flag)}
	pr.flags = parseFlags("UTXO_AFTER_GENESIS")
	if flag&0x40 != 0 {
		pr.flags = parseFlags("UTXO_AFTER_GENESIS,SIGHASH_FORKID")
	}
	// signature-policy flags that library-made (canonical, low-S, DER) signatures satisfy
	for _, f := range []string{"LOW_S", "DERSIG", "STRICTENC", "NULLFAIL", "MINIMALDATA", "SIGPUSHONLY"} {
		if c.Bool(1, 3) {
			pr.flags |= parseFlags(f)
		}
	}
	return pr
}

// fixedSpend builds a deterministic library-signed P2PKH spend (used as a canary by C18-B).
func fixedSpend(flag byte, version uint32, nin, nout, idx int) *program {
	kb := make([]byte, 32)
	for i := range kb {
		kb[i] = byte(17*i + 3)
	}
	priv, pub := bec.PrivKeyFromBytes(bec.S256(), kb)
	h := crypto.Hash160(pub.SerialiseCompressed())
	tx := bt.NewTx()
	tx.Version = version
	lock := p2pkh(h)
	for i := 0; i < nin; i++ {
		id := make([]byte, 32)
		id[0], id[31] = byte(i+1), 0x77
		_ = tx.FromUTXOs(&bt.UTXO{TxID: id, Vout: uint32(i), Satoshis: 5000, LockingScript: scriptPtr(lock)})
	}
	for i := 0; i < nout; i++ {
		tx.AddOutput(&bt.Output{Satoshis: 1000, LockingScript: scriptPtr(lock)})
	}
	if err := tx.FillInput(context.Background(), &unlocker.Simple{PrivateKey: priv}, bt.UnlockerParams{InputIdx: uint32(idx), SigHashFlags: sighash.Flag(flag)}); err != nil {
		panic("harness: canary cannot be signed: " + err.Error())
	}
	pr := &program{unlock: append([]byte(nil), *tx.Inputs[idx].UnlockingScript...), lock: lock, amount: 5000, txBytes: tx.ExtendedBytes(), inIdx: idx, src: "canary-signed " + flagName(flag)}
	pr.flags = parseFlags("UTXO_AFTER_GENESIS")
	if flag&0x40 != 0 {
		pr.flags = parseFlags("UTXO_AFTER_GENESIS,SIGHASH_FORKID")
	}
	return pr
}
