//go:build c18

package worlds

import (
	"context"
	"encoding/json"
	"errors"
	"fmt"
	"sort"
	"strings"
	"time"

	"github.com/anishathalye/porcupine"
	"github.com/libsv/go-bt/v2"
	"github.com/libsv/go-bt/v2/bscript/interpreter"

	"verif/sim/kernel"
	"verif/sim/models"
	"verif/simrt"
)

// C18 worlds. Both run against a freshly instrumented scratch copy of /repo's
// working tree (bin/check build_c18): every sync operation, guarded field
// access, time.Now and interpreter function entry is a yield point of the
// seeded scheduler in verif/simrt.

func init() {
	kernel.Register(&c18aWorld{})
	kernel.Register(&c18bWorld{})
}

type tapeChooser struct{ c *kernel.RunCtx }

func (t tapeChooser) Choose(n int) int { return t.c.Choose(n) }

var simEpoch = time.Date(2030, 1, 1, 0, 0, 0, 0, time.UTC)

func newSched(c *kernel.RunCtx) *simrt.Sched {
	s := simrt.NewSched(tapeChooser{c}, simEpoch)
	c.Begin("policy")
	s.Policy = c.Pick(3, 4, 2)
	s.Stick = []int{50, 75, 90, 98}[c.Choose(4)]
	c.End()
	s.KeepLog = c.Verbose
	return s
}

// reportSched turns scheduler findings into violations; returns true if one was raised.
func reportSched(c *kernel.RunCtx, s *simrt.Sched, what string) bool {
	c.Stats.SimNanos += s.ClockTravel()
	c.Count("sched.steps", s.Steps())
	c.Count("sched.accesses", s.Accesses)
	c.Count("probe.lock_contention", s.BlockedRW)
	c.DistinctH(s.TraceHash())
	if c.Verbose {
		for _, l := range s.TraceLog {
			c.Logf("  sched %s", l)
		}
	}
	if len(s.Races) > 0 {
		r := s.Races[0]
		sites := []string{r.SiteA, r.SiteB}
		sort.Strings(sites)
		c.Fail("data-race", strings.Join(sites, "|"), "%s (%s)", r.Desc, what)
		return true
	}
	if s.Deadlock != "" {
		c.Fail("deadlock", "", "all unfinished tasks are blocked: %s (%s)", s.Deadlock, what)
		return true
	}
	if s.Overrun {
		c.Fail("liveness", "", "tasks did not finish within %d scheduler steps (%s)", s.MaxSteps, what)
		return true
	}
	if p := s.Panics(); len(p) > 0 {
		if strings.Contains(p[0], "harness:") {
			panic(p[0])
		}
		c.Fail("panic", "", "a task panicked: %s (%s)", p[0], what)
		return true
	}
	return false
}

// ================= World A: fee quotes =================

type c18aWorld struct{}

func (*c18aWorld) ID() string   { return "C18" }
func (*c18aWorld) Name() string { return "c18a" }
func (*c18aWorld) Runs(tier string) int {
	if tier == "thorough" {
		return 5000000
	}
	return 40000
}
func (*c18aWorld) Info() kernel.WorldInfo {
	return kernel.WorldInfo{
		Level: "exploration",
		Rule: "c18a: one run = 2..5 client tasks x 1..8 operations on one shared FeeQuotes (1..3 miners) and 1..2 free-standing FeeQuotes (some registered as miners), plus a clock task that steps / jumps the simulated clock forward and backward; the seeded scheduler (uniform / sticky / priority-with-change-points, drawn per run) picks the next task at every lock operation and every instrumented access. " +
			"Oracles: vector-clock data-race detection, porcupine linearizability against a sequential model, deadlock, bounded steps. distinct = distinct schedules (hash of the (task, site) sequence); non-trivial = at least two tasks touched the same object.",
		Assumptions: []string{
			"races are detected on instrumented accesses to FeeQuotes/FeeQuote/Fee/FeeUnit fields and map contents (statement granularity); encoding/json, math/big and go-bk run atomically (no yield points inside)",
			"consumer operations (Change / IsFeePaidEnough / EstimateFeesPaid on a task-private tx) take part in race detection but not in the linearizability history (they read two fee types in two critical sections)",
			"porcupine Unknown (timeout) is counted, never reported",
			"FeeQuotes.Fee (a two-level read: the miner's quote, then that quote's fee) is not part of the linearizability model either: its answer must be the default or a fee that a write of that type, invoked before the read returned, stored",
			"Expired() is not part of the linearizability model (the clock is not an object the quote guards): each answer must be explained by some expiry value the quote could have held during the call and some clock value shown during the call",
		},
		Real:        []string{"all of fees.go (instrumented copy)", "fee consumers in tx.go / txchange.go", "encoding/json (atomic)"},
		Stub:        []string{"sync.RWMutex -> simrt.RWMutex (Go semantics incl. writer preference)", "time.Now -> simulated clock", "goroutine scheduling -> seeded cooperative scheduler"},
		SimTimeNote: "simulated time is the span covered by the clock task's ClockSet events, summed over runs.",
	}
}

func feeOf(n int) *bt.Fee {
	return &bt.Fee{MiningFee: bt.FeeUnit{Satoshis: n, Bytes: n + 1}, RelayFee: bt.FeeUnit{Satoshis: n, Bytes: n + 1}}
}

// feeID reads a fee handed out by the library the way an application would (recorded accesses).
func feeID(f *bt.Fee, site string) int {
	if f == nil {
		return 0
	}
	simrt.Acc(&f.MiningFee.Satoshis, simrt.Read, site)
	s := f.MiningFee.Satoshis
	simrt.Acc(&f.MiningFee.Bytes, simrt.Read, site)
	b := f.MiningFee.Bytes
	if s == 5 && b == 100 {
		return models.DefaultFee
	}
	if b != s+1 {
		return -999999 // a fee no write ever stored (torn)
	}
	return s
}

func errClass(err error) string {
	switch {
	case err == nil:
		return models.ErrNone
	case errors.Is(err, bt.ErrFeeTypeNotFound):
		return models.ErrTypeMissing
	case errors.Is(err, bt.ErrMinerNoQuotes):
		return models.ErrNoMiner
	case errors.Is(err, bt.ErrEmptyValues):
		return models.ErrEmpty
	}
	return "other:" + err.Error()
}

type c18aOp struct {
	in      models.FQOp
	doc     []byte
	consume int // >0: consumer op kind (not in history)
	fee     *bt.Fee
}

func (w *c18aWorld) Run(c *kernel.RunCtx) {
	s := newSched(c)
	simrt.Install(s)
	defer simrt.Uninstall()
	// ---- set-up (no task is running: nothing is recorded, real locks) ----
	c.Begin("setup")
	nq := 1 + c.Choose(2)
	quotes := make([]*bt.FeeQuote, nq)
	for i := range quotes {
		quotes[i] = bt.NewFeeQuote()
	}
	fqs := bt.NewFeeQuotes("m0")
	st := models.NewFQState(simEpoch.Unix(), nq)
	// one run in eight: the quotes are zero values (&bt.FeeQuote{}, what a JSON target is before anything was stored):
	// readers, expiry operations and restores only -- AddQuote on such a quote writes to a nil map
	blank := c.Bool(1, 8)
	if blank {
		for i := range quotes {
			quotes[i] = &bt.FeeQuote{}
			st.Blank(i)
		}
		c.Count("probe.zero_value_quotes", 1)
	}
	st.AddFresh("m0")
	miners := []string{"m0", "m1", "m2"}
	if c.Bool(2, 3) {
		fqs.AddMiner("m1", quotes[0])
		st.Bind("m1", 0)
	}
	if nq > 1 && c.Bool(1, 2) {
		fqs.AddMiner("m2", quotes[1])
		st.Bind("m2", 1)
	}
	ntasks := 2 + c.Choose(4)
	// swarm: which operation kinds exist in this run
	kinds := []string{"QFee", "QAdd", "QExpiry", "QUpdateExpiry", "QExpired", "QMarshal", "QUnmarshal", "SAddDefault", "SAddMiner", "SQuote", "SFee", "SUpdate", "consume", "SJSON"}
	wts := make([]int, len(kinds))
	for i := range wts {
		wts[i] = 1 + c.Choose(5)
		if c.Bool(1, 4) {
			wts[i] = 0
		}
	}
	wts[c.Choose(len(wts))] += 3
	if blank {
		wts[1], wts[11] = 0, 0 // QAdd, SUpdate
		wts[0], wts[5], wts[6] = wts[0]+2, wts[5]+2, wts[6]+1
	}
	feeSeq := 1000
	var lastFee *bt.Fee
	lastFeeID, sharedFees := 0, 0
	types := []string{"standard", "data"}
	plans := make([][]c18aOp, ntasks)
	for t := 0; t < ntasks; t++ {
		nops := 1 + c.Choose(8)
		for k := 0; k < nops; k++ {
			c.Begin("op")
			op := c18aOp{}
			kind := kinds[c.Pick(wts...)]
			op.in = models.FQOp{Kind: kind, Quote: c.Choose(nq), Miner: miners[c.Choose(len(miners))], Type: types[c.Choose(2)]}
			switch kind {
			case "QAdd", "SUpdate":
				feeSeq++
				op.in.Fee = feeSeq
				op.fee = feeOf(feeSeq)
				if lastFee != nil && c.Bool(1, 5) {
					// the application keeps one *Fee object per rate and hands the SAME object to several quotes / types
					op.fee, op.in.Fee = lastFee, lastFeeID
					feeSeq--
					sharedFees++
				}
				lastFee, lastFeeID = op.fee, op.in.Fee
				if kind == "SUpdate" && c.Bool(1, 8) {
					op.in.Empty = true
				}
			case "QUpdateExpiry":
				// model times are whole Unix seconds, so that expiries centuries away stay representable
				op.in.Time = simEpoch.Add(time.Duration(c.Range(-3, 12)) * time.Hour).Unix()
				if c.Bool(1, 8) {
					// "never expires" / "always expired" conventions and other instants far from the present
					far := []time.Time{time.Date(9999, 12, 31, 23, 59, 59, 0, time.UTC), time.Date(3000, 1, 1, 0, 0, 0, 0, time.UTC), time.Date(2263, 1, 1, 0, 0, 0, 0, time.UTC),
						time.Date(1677, 1, 1, 0, 0, 0, 0, time.UTC), time.Date(1000, 1, 1, 0, 0, 0, 0, time.UTC), {}, time.Unix(0, 0).UTC(), time.Unix(1<<40, 0).UTC()}
					op.in.Time = far[c.Choose(len(far))].Unix()
					c.Count("probe.expiry_centuries_away", 1)
				}
			case "QUnmarshal":
				switch c.Pick(5, 2, 1, 1) {
				case 0:
					feeSeq += 2
					op.in.Doc, op.in.DocOK = map[string]int{"standard": feeSeq - 1, "data": feeSeq}, true
				case 1:
					feeSeq++
					op.in.Doc, op.in.DocOK = map[string]int{types[c.Choose(2)]: feeSeq}, true
				case 2:
					op.doc = []byte(`{"standard":{"miningFee":{"satoshis":1`)
				default:
					op.doc = []byte(`{"premium":{"miningFee":{"satoshis":7,"bytes":8},"relayFee":{"satoshis":7,"bytes":8}}}`)
				}
				if op.in.DocOK {
					m := map[string]interface{}{}
					for ty, id := range op.in.Doc {
						m[ty] = map[string]interface{}{"miningFee": map[string]int{"satoshis": id, "bytes": id + 1}, "relayFee": map[string]int{"satoshis": id, "bytes": id + 1}}
					}
					op.doc, _ = json.Marshal(m)
				}
			case "consume":
				op.consume = 1 + c.Choose(4)
			}
			plans[t] = append(plans[t], op)
			c.End()
		}
	}
	if sharedFees > 0 {
		c.Count("probe.one_fee_object_in_several_writes", sharedFees)
	}
	nclock := c.Choose(5)
	clockTimes := make([]int64, nclock)
	for i := range clockTimes {
		clockTimes[i] = simEpoch.Add(time.Duration(c.Range(-2, 14))*time.Hour + time.Duration(c.Choose(3600))*time.Second).Unix()
	}
	// some expiries are EXACTLY an instant the clock shows (its start value or one of its later settings): a quote
	// that expires now has not expired yet
	for t := range plans {
		for k := range plans[t] {
			if op := &plans[t][k]; op.in.Kind == "QUpdateExpiry" && c.Bool(1, 5) {
				op.in.Time = simEpoch.Unix()
				if nclock > 0 && c.Bool(2, 3) {
					op.in.Time = clockTimes[c.Choose(nclock)]
				}
				c.Count("probe.expiry_equal_to_a_clock_value", 1)
			}
		}
	}
	c.End()
	// ---- tasks ----
	var history []porcupine.Operation
	record := func(client int, in models.FQOp, call uint64, out models.FQOut) {
		ret := simrt.Stamp()
		history = append(history, porcupine.Operation{ClientId: client, Input: in, Call: int64(call), Output: out, Return: int64(ret)})
	}
	quoteClass := func(q *bt.FeeQuote) int {
		if q == nil {
			return -2
		}
		for i, p := range quotes {
			if p == q {
				return i
			}
		}
		return -1
	}
	for t := 0; t < ntasks; t++ {
		t := t
		s.Go(fmt.Sprintf("client%d", t), func() {
			for k, op := range plans[t] {
				site := fmt.Sprintf("harness:client%d.op%d", t, k)
				simrt.YieldPoint(site)
				in := op.in
				q := quotes[in.Quote]
				if op.consume > 0 {
					w.consume(q, op.consume)
					continue
				}
				if in.Kind == "SJSON" {
					// the container itself through encoding/json (read-only; today it has no JSON form of its own and gives "{}";
					// what is returned is not judged, only what is touched on the way)
					_, _ = json.Marshal(fqs)
					continue
				}
				call := simrt.Stamp()
				var out models.FQOut
				switch in.Kind {
				case "QFee":
					f, err := q.Fee(bt.FeeType(in.Type))
					out.Fee, out.Err = feeID(f, site), errClass(err)
				case "QAdd":
					q.AddQuote(bt.FeeType(in.Type), op.fee)
				case "QExpiry":
					out.Time = q.Expiry().Unix()
				case "QUpdateExpiry":
					q.UpdateExpiry(time.Unix(in.Time, 0).UTC())
				case "QExpired":
					out.Bool = q.Expired()
				case "QMarshal":
					b, err := q.MarshalJSON()
					out.Err = errClass(err)
					out.Fees = parseFeeDoc(b)
				case "QUnmarshal":
					if err := q.UnmarshalJSON(op.doc); err != nil {
						out.Err = models.ErrBadDoc
					}
				case "SAddDefault":
					fqs.AddMinerWithDefault(in.Miner)
				case "SAddMiner":
					fqs.AddMiner(in.Miner, q)
				case "SQuote":
					got, err := fqs.Quote(in.Miner)
					out.Err, out.QClass = errClass(err), quoteClass(got)
				case "SFee":
					f, err := fqs.Fee(in.Miner, bt.FeeType(in.Type))
					out.Fee, out.Err = feeID(f, site), errClass(err)
				case "SUpdate":
					var err error
					var uq *bt.FeeQuote
					if in.Empty {
						uq, err = fqs.UpdateMinerFees(in.Miner, "", op.fee)
					} else {
						uq, err = fqs.UpdateMinerFees(in.Miner, bt.FeeType(in.Type), op.fee)
					}
					out.Err, out.QClass = errClass(err), quoteClass(uq)
				}
				record(t, in, call, out)
			}
		})
	}
	if nclock > 0 {
		s.Go("clock", func() {
			for i, ts := range clockTimes {
				simrt.YieldPoint(fmt.Sprintf("harness:clock%d", i))
				call := simrt.Stamp()
				simrt.ClockSet(time.Unix(ts, 0).UTC())
				record(ntasks, models.FQOp{Kind: "ClockSet", Time: ts}, call, models.FQOut{})
			}
		})
		c.Count("fault.clock_jump", nclock)
	}
	c.Exec()
	s.Run()
	if c.Verbose {
		for _, op := range history {
			c.Logf("  [%d..%d] client%d %s", op.Call, op.Return, op.ClientId, op.Input.(models.FQOp).Describe(op.Output.(models.FQOut)))
		}
	}
	if reportSched(c, s, "fee quotes") {
		return
	}
	if c.WantSample() && len(history) > 6 {
		var hs []string
		for _, op := range history {
			hs = append(hs, fmt.Sprintf("[%d..%d] client%d %s", op.Call, op.Return, op.ClientId, op.Input.(models.FQOp).Describe(op.Output.(models.FQOut))))
		}
		c.Sample(map[string]interface{}{"world": "c18a", "tasks": ntasks, "scheduler_policy": s.Policy, "scheduler_steps": s.Steps(), "history": hs})
	}
	// ---- quiescence: with every task finished the object's different views of itself must agree ----
	for qi, q := range quotes {
		e, x := q.Expiry(), q.Expired()
		shown := []int64{simEpoch.Unix()}
		for _, ts := range clockTimes {
			shown = append(shown, ts)
		}
		if !models.ExpiredAtQuiescence(x, e.Unix(), simrt.Now().Unix(), shown) {
			c.Fail("views-disagree-at-quiescence", "Expired", "after all tasks finished, Q%d.Expiry() is %d and the clock shows %d, yet Q%d.Expired() answers %v", qi, e.Unix(), simrt.Now().Unix(), qi, x)
			return
		}
		doc, err := q.MarshalJSON()
		if err != nil {
			continue
		}
		seen := parseFeeDoc(doc)
		for _, ty := range types {
			f, ferr := q.Fee(bt.FeeType(ty))
			id := 0
			if ferr == nil {
				id = feeID(f, "harness:quiescence")
			}
			if id != seen[ty] {
				c.Fail("views-disagree-at-quiescence", "Fee", "after all tasks finished, Q%d.Fee(%s) is fee#%d but MarshalJSON shows fee#%d", qi, ty, id, seen[ty])
				return
			}
		}
	}
	// ---- expiry checks: each answer explained by a stored expiry and a clock value seen during the call ----
	var ivs []models.Interval
	for _, op := range history {
		ivs = append(ivs, models.Interval{Call: op.Call, Ret: op.Return, In: op.Input.(models.FQOp), Out: op.Output.(models.FQOut)})
	}
	exp0 := simEpoch.Unix()
	if blank {
		exp0 = models.ZeroTimeUnix
	}
	if msg := models.ExpiredExplained(ivs, exp0, simEpoch.Unix()); msg != "" {
		c.Fail("expired-unexplained", "", "%s", msg)
		return
	}
	atStart := map[string]bool{}
	for m := range st.Miners {
		atStart[m] = true
	}
	if msg := models.SFeeExplained(ivs, atStart, blank); msg != "" {
		c.Fail("read-of-unstored-value", "FeeQuotes.Fee", "%s", msg)
		return
	}
	// ---- linearizability ----
	// UpdateMinerFees is a two-level operation (find the miner's quote, then write into that quote) and the statement
	// does not promise that the two levels are one atomic step: an implementation may let go of the container between
	// them. The two readings differ only when a registration of the same miner overlaps the update; such an update is
	// judged as what it certainly is -- a write into the quote it returned -- and when that quote is one the container
	// made itself (no handle to name it by) the history is not put to the sequential model at all (the race detector
	// and the stored-value and quiescence oracles have already judged it).
	skipLin := false
	for i := range history {
		in := history[i].Input.(models.FQOp)
		out := history[i].Output.(models.FQOut)
		if in.Kind != "SUpdate" || in.Empty || out.Err != models.ErrNone {
			continue
		}
		overlaps := false
		for j := range history {
			o := history[j].Input.(models.FQOp)
			if (o.Kind == "SAddMiner" || o.Kind == "SAddDefault") && o.Miner == in.Miner && history[j].Call < history[i].Return && history[i].Call < history[j].Return {
				overlaps = true
			}
		}
		if !overlaps {
			continue
		}
		c.Count("probe.update_overlapping_registration_of_same_miner", 1)
		if out.QClass >= 0 {
			history[i].Input = models.FQOp{Kind: "QAdd", Quote: out.QClass, Type: in.Type, Fee: in.Fee}
			history[i].Output = models.FQOut{}
		} else {
			skipLin = true
		}
	}
	if skipLin {
		c.Count("probe.history_not_put_to_the_sequential_model", 1)
		return
	}
	model := porcupine.Model{
		Init: func() interface{} { return st },
		Step: func(state, input, output interface{}) (bool, interface{}) {
			ok, n := models.FQStep(state.(*models.FQState), input.(models.FQOp), output.(models.FQOut))
			return ok, n
		},
		Equal: func(a, b interface{}) bool { return a.(*models.FQState).Key() == b.(*models.FQState).Key() },
	}
	switch porcupine.CheckOperationsTimeout(model, history, 20*time.Second) {
	case porcupine.Illegal:
		var hs []string
		for _, op := range history {
			hs = append(hs, fmt.Sprintf("[%d..%d] client%d %s", op.Call, op.Return, op.ClientId, op.Input.(models.FQOp).Describe(op.Output.(models.FQOut))))
		}
		c.Fail("not-linearizable", "", "the recorded history has no sequential explanation (some read returned a value no write stored at any admissible point): %s", strings.Join(hs, "; "))
	case porcupine.Unknown:
		c.Stats.Unknown++
	default:
		c.Count("probe.linearizable_histories", 1)
	}
}

func parseFeeDoc(b []byte) map[string]int {
	var m map[string]struct {
		MiningFee struct{ Satoshis, Bytes int } `json:"miningFee"`
	}
	if json.Unmarshal(b, &m) != nil {
		return nil
	}
	out := map[string]int{}
	for k, v := range m {
		id := v.MiningFee.Satoshis
		if v.MiningFee.Satoshis == 5 && v.MiningFee.Bytes == 100 {
			id = models.DefaultFee
		} else if v.MiningFee.Bytes != v.MiningFee.Satoshis+1 {
			id = -999999
		}
		out[k] = id
	}
	return out
}

// consume uses a shared quote the way applications do, on a task-private transaction.
func (w *c18aWorld) consume(q *bt.FeeQuote, kind int) {
	tx := bt.NewTx()
	_ = tx.FromUTXOs(&bt.UTXO{TxID: make([]byte, 32), Vout: 0, Satoshis: 100000, LockingScript: scriptPtr(p2pkh(make([]byte, 20)))})
	tx.AddOutput(&bt.Output{Satoshis: 1000, LockingScript: scriptPtr(p2pkh(make([]byte, 20)))})
	switch kind {
	case 1:
		_, _ = tx.IsFeePaidEnough(q)
	case 2:
		_, _ = tx.EstimateFeesPaid(q)
	case 4:
		// funding a task-private transaction from the shared quote
		ftx := bt.NewTx()
		ftx.AddOutput(&bt.Output{Satoshis: 5000, LockingScript: scriptPtr(p2pkh(make([]byte, 20)))})
		n := 0
		_ = ftx.Fund(context.Background(), q, func(ctx context.Context, deficit uint64) ([]*bt.UTXO, error) {
			n++
			if n > 4 {
				return nil, bt.ErrNoUTXO
			}
			id := make([]byte, 32)
			id[0] = byte(n)
			return []*bt.UTXO{{TxID: id, Vout: uint32(n), Satoshis: deficit/2 + 1, LockingScript: scriptPtr(p2pkh(make([]byte, 20)))}}, nil
		})
	default:
		_ = tx.Change(scriptPtr(p2pkh(make([]byte, 20))), q)
	}
}

// ================= World B: one engine, many validations =================

type c18bWorld struct{}

func (*c18bWorld) ID() string   { return "C18" }
func (*c18bWorld) Name() string { return "c18b" }
func (*c18bWorld) Runs(tier string) int {
	if tier == "thorough" {
		return 600000
	}
	return 8000
}

// ProcessRuns: a fresh worker process every 40 runs, so that lazily initialised process-wide state (memo tables,
// one-time initialisers) is cold again and its first, racy use happens under the scheduler many times per check.
func (*c18bWorld) ProcessRuns() int { return 40 }

// SingleProc: the simulated scheduler decides who runs; a second P adds nothing.
func (*c18bWorld) SingleProc() bool { return true }
func (*c18aWorld) SingleProc() bool { return true }

func (*c18bWorld) Info() kernel.WorldInfo {
	return kernel.WorldInfo{
		Level: "exploration",
		Rule: "c18b: one run = 2..6 tasks, each executing its own program (corpus script, seeded script, or library-signed P2PKH spend, valid or invalid) on ONE shared interpreter.Engine value, half of them under a recording debugger; the seeded scheduler switches tasks at interpreter function entries (granularity drawn per run). The concurrent phase runs FIRST, the solo reference runs afterwards. " +
			"Oracles: each task's outcome and callback history equal its solo run; no vector-clock race on engine fields, types reachable from them, or package variables written after init; no deadlock; bounded steps.",
		Assumptions: []string{"package-level tables are compared indirectly (solo-vs-concurrent equality) unless they are assigned after init, in which case every access is instrumented"},
		Real:        []string{"the whole interpreter (instrumented copy: Yield at every function entry)", "bt signature hashing under concurrent use", "go-bk ECDSA (atomic)"},
		Stub:        []string{"goroutine scheduling -> seeded cooperative scheduler", "debuggers"},
	}
}

func (w *c18bWorld) Run(c *kernel.RunCtx) {
	s := newSched(c)
	s.MaxSteps = 3000000 // safety net only: programs are size-bounded below, so a legitimate run stays far under it
	c.Begin("setup")
	ntasks := 2 + c.Choose(5)
	every := []int{1, 3, 10, 40}[c.Choose(4)]
	progs := make([]*program, ntasks)
	withDbg := make([]bool, ntasks)
	cp := loadCorpus()
	// swarm: a quarter of the runs are about big-number arithmetic after Genesis in every task
	numberRun := c.Bool(1, 4)
	genLongNumbers = numberRun
	defer func() { genLongNumbers = false }()
	for i := range progs {
		c.Begin("prog")
		kindW := []int{4, 3, 3}
		if numberRun {
			kindW = []int{0, 1, 6}
		}
		switch c.Pick(kindW...) {
		case 0:
			e := cp[c.Choose(len(cp))]
			p := &program{flags: parseFlags(e.F), amount: uint64(e.A), src: "corpus"}
			p.unlock, p.lock = mustHex(e.U), mustHex(e.L)
			if c.Bool(1, 3) {
				p.flags ^= parseFlags("UTXO_AFTER_GENESIS")
			}
			progs[i] = p
		case 1:
			progs[i] = signedProgram(c)
			if progs[i] == nil {
				progs[i] = genProgram(c)
			}
		default:
			progs[i] = genProgram(c)
			if numberRun {
				progs[i].flags |= parseFlags("UTXO_AFTER_GENESIS")
			}
		}
		if len(progs[i].unlock)+len(progs[i].lock) > 1500 {
			// a yield per function entry makes very long scripts cost millions of scheduler steps: keep them out of this world
			progs[i] = &program{unlock: []byte{0x51}, lock: []byte{0x51, 0x87}, flags: progs[i].flags, src: "replacement-for-long-script"}
		}
		withDbg[i] = c.Bool(1, 2)
		// some validators run scripts without a transaction context (WithScripts), as callers that only
		// evaluate scripts do; signed programs keep their transaction
		if progs[i].txBytes == nil && c.Bool(1, 3) {
			progs[i].scriptsOnly = true
			c.Count("probe.scripts_only_validator", 1)
		}
		c.End()
	}
	if c.Bool(1, 4) {
		// twins: several validators are handed the same transaction (separate objects, identical bytes) — the inputs
		// of one transaction, or one transaction received more than once, being validated at the same time
		a := c.Choose(ntasks)
		for i, p := range progs {
			if p.txBytes != nil {
				a = i // prefer a library-signed spend: its signature check is the expensive, cacheable part
				break
			}
		}
		copies := 1 + c.Choose(ntasks-1)
		for b := 0; b < ntasks && copies > 0; b++ {
			if b == a {
				continue
			}
			cp := *progs[a]
			cp.unlock, cp.lock = append([]byte(nil), cp.unlock...), append([]byte(nil), cp.lock...)
			if cp.txBytes != nil {
				cp.txBytes = append([]byte(nil), cp.txBytes...)
			}
			progs[b] = &cp
			copies--
		}
		c.Count("probe.twin_validations", 1)
	}
	c.End()
	// Baseline verdicts are taken before this process has run anything else in this world -- except in every other
	// worker process, which starts COLD: there the very first library code the process executes is the concurrent
	// phase itself (state that is initialised once per process, on first use, is initialised by racing tasks), and
	// the canaries are first run afterwards, against what consensus says about them.
	coldStart := canaryList == nil && c.RunIdx%2 == 1 // the odd shards
	if coldStart {
		c.Count("probe.cold_process_concurrent_first", 1)
	} else {
		canaries()
	}
	eng := interpreter.NewEngine()
	outs := make([]outcome, ntasks)
	recs := make([]*recorder, ntasks)
	simrt.Install(s)
	simrt.YieldEvery(every)
	for i := 0; i < ntasks; i++ {
		i := i
		s.Go(fmt.Sprintf("validator%d", i), func() {
			simrt.YieldPoint(fmt.Sprintf("harness:validator%d", i))
			if withDbg[i] {
				recs[i] = &recorder{max: 60000, maxVolume: 24 << 20}
				outs[i] = execProgramOn(eng, progs[i], recs[i])
			} else {
				outs[i] = execProgramOn(eng, progs[i], nil)
			}
		})
	}
	c.Exec()
	s.Run()
	simrt.Uninstall()
	if reportSched(c, s, "shared engine") {
		return
	}
	// solo references afterwards (a lazily filled shared table would otherwise be warm already)
	for i := 0; i < ntasks; i++ {
		var r *recorder
		if withDbg[i] {
			r = &recorder{max: 60000, maxVolume: 24 << 20}
		}
		c.Exec()
		var solo outcome
		if r != nil {
			solo = execProgramOn(eng, progs[i], r)
		} else {
			solo = execProgramOn(eng, progs[i], nil)
		}
		if solo.class == "panic" && (solo.text == errTooBig || outs[i].text == errTooBig) {
			c.Count("probe.skipped_oversized_program", 1)
			continue
		}
		if !solo.same(outs[i]) {
			c.Fail("concurrent-differs", "verdict", "validator %d of %d got %s when run concurrently on the shared engine, %s when run alone (%s flags %x unlock %x lock %x)", i, ntasks, outs[i], solo, progs[i].src, uint32(progs[i].flags), progs[i].unlock, progs[i].lock)
			return
		}
		if r != nil {
			if d := diffHistories(r.events, recs[i].events); d != "" {
				c.Fail("concurrent-differs", "history", "validator %d: callback history differs between the solo run and the concurrent run: %s", i, d)
				return
			}
		}
		if solo.class == "ok" {
			c.Count("probe.concurrent_valid_verdicts", 1)
		} else {
			c.Count("probe.concurrent_invalid_verdicts", 1)
		}
	}
	// canaries: unrelated validations with known verdicts, on the engine the tasks shared and on a fresh one.
	// An execution must not change what a later, unrelated validation returns (state leaked through the engine,
	// a pool, or a package-level value).
	for _, e := range []struct {
		name string
		eng  interpreter.Engine
	}{{"the shared engine", eng}, {"a fresh engine", interpreter.NewEngine()}} {
		if canaryList == nil {
			if bad := buildCanaries(); bad != "" {
				c.Fail("cross-contamination", "canary", "after the concurrent validations (the first library code this process executed) %s", bad)
				return
			}
		}
		for ci, cn := range canaries() {
			c.Exec()
			got := execProgramOn(e.eng, cn.prog, nil)
			if !got.same(cn.want) {
				c.Fail("cross-contamination", cn.prog.src, "after the concurrent validations, canary %d (%s) on %s returns %s; in a pristine process it returns %s", ci, cn.prog.src, e.name, got, cn.want)
				return
			}
		}
	}
	c.Count("probe.canaries_checked", 1)
	if c.WantSample() {
		var ps []string
		for i, p := range progs {
			ps = append(ps, fmt.Sprintf("validator%d: %s flags=%x -> %s", i, p.src, uint32(p.flags), outs[i]))
		}
		c.Sample(map[string]interface{}{"world": "c18b", "tasks": ntasks, "yield_every": every, "scheduler_steps": s.Steps(), "programs": ps})
	}
}

type canary struct {
	prog *program
	want outcome
}

var canaryList []canary

// canaries are built and executed once, at the first use in a fresh worker process.
func canaries() []canary {
	if canaryList != nil {
		return canaryList
	}
	if bad := buildCanaries(); bad != "" {
		panic("harness: in a pristine process " + bad + ": instrumentation fault or a sequential defect outside C18")
	}
	return canaryList
}

// buildCanaries executes the canaries for the first time in this process and keeps their outcomes; it returns a
// description of the first one whose verdict is not what consensus says.
func buildCanaries() string {
	raw := []*program{
		{unlock: []byte{0x51}, lock: []byte{0x6a}, flags: parseFlags("P2SH,STRICTENC"), src: "canary pre-genesis OP_RETURN"},
		{unlock: []byte{0x51}, lock: []byte{0x6a}, flags: parseFlags("UTXO_AFTER_GENESIS"), src: "canary post-genesis OP_RETURN"},
		{unlock: []byte{0x51}, lock: []byte{0x51, 0x87}, flags: parseFlags("P2SH,STRICTENC"), src: "canary 1 1 EQUAL"},
		{unlock: []byte{0x52, 0x53}, lock: []byte{0x93, 0x55, 0x9c}, flags: parseFlags(""), src: "canary 2 3 ADD 5 NUMEQUAL"},
		{unlock: []byte{0x51}, lock: []byte{0x63, 0x51, 0x67, 0x00, 0x68}, flags: parseFlags("UTXO_AFTER_GENESIS"), src: "canary IF 1 ELSE 0 ENDIF"},
		{unlock: []byte{0x00}, lock: []byte{0x63, 0x51, 0x67, 0x00, 0x68}, flags: parseFlags("P2SH"), src: "canary false branch"},
		{unlock: []byte{0x04, 0xff, 0xff, 0xff, 0xff}, lock: []byte{0x8b, 0x75, 0x51}, flags: parseFlags("P2SH,STRICTENC"), src: "canary 5-byte result pre-genesis"},
		{unlock: []byte{0x05, 0xff, 0xff, 0xff, 0xff, 0x00}, lock: []byte{0x8b, 0x75, 0x51}, flags: parseFlags("UTXO_AFTER_GENESIS"), src: "canary 5-byte operand post-genesis"},
		{unlock: []byte{0x05, 0xff, 0xff, 0xff, 0xff, 0x00}, lock: []byte{0x8b, 0x75, 0x51}, flags: parseFlags("P2SH"), src: "canary 5-byte operand pre-genesis"},
	}
	redeem := []byte{0x51, 0x87}
	raw = append(raw, &program{unlock: append([]byte{0x51}, pushOf(redeem)...), lock: append(append([]byte{0xa9, 0x14}, cryptoHash160(redeem)...), 0x87), flags: parseFlags("P2SH,STRICTENC"), src: "canary P2SH spend"})
	raw = append(raw, fixedSpend(0x41, 2, 2, 2, 1), fixedSpend(0x03, 1, 3, 1, 2), fixedSpend(0x01, 1, 1, 1, 0), fixedSpend(0xc3, 0x7fffffff, 2, 2, 0))
	// what consensus says about them (true: the spend is valid). The instrumented build must agree before anything it
	// reports is believed: a disagreement means the instrumentation changed the program (or the tree has a plain
	// sequential defect, which is not this property's subject) — either way trouble, not a C18 verdict.
	truth := []bool{false, true, true, true, true, false, true, true, false, true, true, true, true, true}
	for i, p := range raw {
		got := execProgram(p, nil)
		if i < len(truth) && (got.class == "ok") != truth[i] {
			canaryList = nil
			return fmt.Sprintf("the instrumented build answers %s for canary %d (%s), consensus says valid=%v", got, i, p.src, truth[i])
		}
		canaryList = append(canaryList, canary{p, got})
	}
	return ""
}

func mustHex(h string) []byte {
	b := make([]byte, len(h)/2)
	for i := range b {
		fmt.Sscanf(h[2*i:2*i+2], "%02x", &b[i])
	}
	return b
}
