package worlds

import (
	"bufio"
	"bytes"
	"encoding/hex"
	"encoding/json"
	"fmt"
	"io"

	"github.com/libsv/go-bt/v2"
	"github.com/libsv/go-bt/v2/bscript"
	"github.com/libsv/go-bt/v2/bscript/interpreter"

	"verif/sim/kernel"
	"verif/sim/models"
)

// C01: sender (reference codec, stub) -> simulated stream with a seeded
// delivery schedule -> receiver (real decoders/encoders).

type c01World struct{}

// c01Recv holds receivers that are deliberately re-used across decodes of one run
// ("the second use of an object"), so state left behind by an earlier decode shows.
type c01Recv struct {
	tx   *bt.Tx
	list bt.Txs
	used int
}

var c01recv *c01Recv

func init() { kernel.Register(&c01World{}) }

func (*c01World) ID() string   { return "C01" }
func (*c01World) Name() string { return "c01" }
func (*c01World) Runs(tier string) int {
	if tier == "thorough" {
		return 1200000
	}
	return 12000
}
func (*c01World) Info() kernel.WorldInfo {
	return kernel.WorldInfo{
		Level: "exploration",
		Rule: "one run = one reference-encoded stream (1..4 transactions; single / concatenated / counted block list; standard or extended; optionally with non-minimal length prefixes, a tail, or one mutation the reference parser still accepts) " +
			"decoded by the real decoders under 3..6 seeded delivery plans (whole, 1-byte, small, mixed fragments, ask-minus-one, zero-length reads, EOF with or after the last bytes), plus the slice APIs and an API-built twin of the first transaction. " +
			"distinct = distinct (container, format, per-tx shape class [count classes, script-length classes], delivery-plan kind, variant) tuples; non-trivial = at least one input or output.",
		Assumptions: []string{
			"the reference codec in /verif/sim/models/refcodec.go is the definition of the wire format",
			"previous scripts compare as bytes (nil is the same as empty)",
			"the value-level round trip over shapes is sampled workload; the deciding power of this check is in the delivery-schedule dimension (exact consumption, position after each transaction, plan independence)",
		},
		Real:        []string{"bt.Tx.ReadFrom", "bt.Txs.ReadFrom", "bt.Input.ReadFrom/ReadFromExtended", "bt.Output.ReadFrom", "bt.VarInt.ReadFrom/Bytes/Length", "bt.NewTxFromBytes/NewTxFromStream/NewTxFromString", "bt.Tx.Bytes/ExtendedBytes/TxID/TxIDBytes/Clone/String", "bt.Tx.FromUTXOs/AddOutput"},
		Stub:        []string{"sender = reference codec", "transport = kernel.Stream (simulated reader)"},
		SimTimeNote: "the codec reads no clock; simulated time is not applicable to this world.",
	}
}

func pickU32(c *kernel.RunCtx) uint32 {
	switch c.Pick(3, 2, 2, 3) {
	case 0:
		return uint32(c.Choose(3))
	case 1:
		return 0xffffffff
	case 2:
		return 0xfffffffe
	}
	return uint32(c.U64n(1 << 32))
}

func pickU64(c *kernel.RunCtx) uint64 {
	switch c.Pick(3, 1, 1, 3, 2) {
	case 0:
		return c.U64n(100000)
	case 1:
		return 0
	case 2:
		return ^uint64(0)
	case 3:
		return c.U64n(0)
	}
	return 2100000000000000 - c.U64n(3)
}

func pickCount(c *kernel.RunCtx, big bool) int {
	switch c.Pick(60, 8, 1) {
	case 0:
		return c.Pick(3, 5, 3, 2, 1)
	case 1:
		return []int{252, 253, 254}[c.Choose(3)]
	}
	if big {
		return []int{65535, 65536}[c.Choose(2)]
	}
	return c.Range(5, 40)
}

// genRTx draws a model transaction. heavy limits how much big stuff is allowed.
func genRTx(c *kernel.RunCtx, extended bool, heavy *int) *models.RTx {
	c.Begin("tx")
	defer c.End()
	t := &models.RTx{Version: pickU32(c), Lock: pickU32(c)}
	allowBig := *heavy > 0
	nin := pickCount(c, allowBig)
	nout := pickCount(c, allowBig)
	// a draft on its way to the signers: extended format, every input spends a P2PKH output and has no unlocking script yet
	unsignedP2PKH := extended && c.Bool(1, 6)
	if nin > 1000 || nout > 1000 {
		*heavy--
	}
	slen := func(cheap bool) int {
		if cheap {
			return c.Pick(4, 1)
		}
		n := boundaryLen(c, 270000)
		if n > 60000 {
			if *heavy <= 0 {
				n = 300
			} else {
				*heavy--
			}
		}
		return n
	}
	for i := 0; i < nin; i++ {
		c.Begin("in")
		var in models.RIn
		copy(in.TxIDWire[:], c.Bytes(32))
		in.Vout, in.Seq = pickU32(c), pickU32(c)
		switch c.Pick(12, 1, 1, 1) {
		case 1: // the null outpoint (coinbase pattern) — here it is just another outpoint
			in.TxIDWire = [32]byte{}
			in.Vout = 0xffffffff
			c.Count("probe.null_outpoint_input", 1)
		case 2:
			for j := range in.TxIDWire {
				in.TxIDWire[j] = 0xff
			}
		case 3:
			if i > 0 { // an exact duplicate of the previous outpoint
				in.TxIDWire, in.Vout = t.Ins[i-1].TxIDWire, t.Ins[i-1].Vout
			}
		}
		in.Script = fillBytes(c, slen(nin > 300))
		if extended {
			in.PrevSats = pickU64(c)
			in.PrevScript = fillBytes(c, slen(nin > 300))
			if c.Bool(1, 4) || unsignedP2PKH {
				in.PrevScript = p2pkh(c.Bytes(20)) // the usual previous output
			}
			if unsignedP2PKH {
				in.Script = nil // not signed yet
			}
		}
		t.Ins = append(t.Ins, in)
		c.End()
	}
	for i := 0; i < nout; i++ {
		c.Begin("out")
		o := models.ROut{Sats: pickU64(c), Script: fillBytes(c, slen(nout > 300))}
		switch c.Pick(10, 2, 2, 1, 2) {
		case 4: // a data carrier: (OP_FALSE) OP_RETURN followed by a few small pushes
			o.Script = []byte{0x6a}
			if c.Bool(1, 2) {
				o.Script = []byte{0x00, 0x6a}
			}
			for k, n := 0, 1+c.Choose(4); k < n; k++ {
				o.Script = append(o.Script, pushOf(c.Bytes(1+c.Choose(6)))...)
			}
		case 1: // a P2PKH template
			o.Script = p2pkh(c.Bytes(20))
		case 2: // a near-duplicate of an earlier output's script: same bytes, different tail
			if i > 0 && len(t.Outs[c.Choose(i)].Script) > 2 {
				src := t.Outs[c.Choose(i)].Script
				if len(src) > 2 {
					o.Script = append([]byte(nil), src...)
					o.Script[len(o.Script)-1] ^= byte(1 + c.Choose(255))
					if c.Bool(1, 2) {
						o.Script[len(o.Script)-2] ^= byte(1 + c.Choose(255))
					}
					c.Count("probe.near_duplicate_script", 1)
				}
			}
		case 3: // an exact duplicate of the previous output
			if i > 0 {
				o = models.ROut{Sats: t.Outs[i-1].Sats, Script: append([]byte(nil), t.Outs[i-1].Script...)}
			}
		}
		t.Outs = append(t.Outs, o)
		c.End()
	}
	if nin == 0 && nout == 0 && t.Lock == 0xEF000000 {
		t.Lock = 0xEF000001 // the one inherently ambiguous shape is excluded by the property
	}
	for _, n := range []int{nin, nout} {
		switch {
		case n == 0:
			c.Count("probe.count_0", 1)
		case n == 252 || n == 253:
			c.Count("probe.count_252_253", 1)
		case n >= 65535:
			c.Count("probe.count_65535_65536", 1)
		}
	}
	for _, in := range t.Ins {
		if l := len(in.Script); l == 252 || l == 253 {
			c.Count("probe.script_len_252_253", 1)
		} else if l >= 131071 {
			c.Count("probe.script_len_over_128k", 1)
		} else if l >= 65535 {
			c.Count("probe.script_len_65535_65536", 1)
		}
	}
	if extended {
		c.Count("probe.extended_format", 1)
		for _, in := range t.Ins {
			if len(in.PrevScript) == 0 {
				c.Count("probe.extended_empty_prev_script", 1)
				break
			}
		}
	}
	return t
}

// relatedVariant: the same outpoints at the same positions, every other field different (an earlier draft of the
// same spend, with its previous outputs known).
func relatedVariant(m *models.RTx) *models.RTx {
	r := &models.RTx{Version: m.Version + 1, Lock: m.Lock ^ 0x55}
	for i, in := range m.Ins {
		r.Ins = append(r.Ins, models.RIn{TxIDWire: in.TxIDWire, Vout: in.Vout, Seq: in.Seq ^ 1, Script: []byte{0x51, byte(i)},
			PrevSats: in.PrevSats + 7777, PrevScript: p2pkh(make([]byte, 20))})
	}
	for _, o := range m.Outs {
		r.Outs = append(r.Outs, models.ROut{Sats: o.Sats + 1, Script: append([]byte{0x6a}, o.Script...)})
	}
	return r
}

func lenClass(n int) string {
	switch {
	case n == 0:
		return "0"
	case n < 76:
		return "s"
	case n < 253:
		return "m"
	case n == 253 || n == 252:
		return "b"
	case n < 65536:
		return "l"
	}
	return "x"
}

func shapeClass(t *models.RTx) string {
	s := lenClass(len(t.Ins)) + lenClass(len(t.Outs)) + ":"
	seen := map[string]bool{}
	for _, in := range t.Ins {
		seen["i"+lenClass(len(in.Script))+lenClass(len(in.PrevScript))] = true
	}
	for _, o := range t.Outs {
		seen["o"+lenClass(len(o.Script))] = true
	}
	for _, k := range []string{"0", "s", "m", "b", "l", "x"} {
		for _, k2 := range []string{"0", "s", "m", "b", "l", "x"} {
			if seen["i"+k+k2] {
				s += "i" + k + k2
			}
		}
		if seen["o"+k] {
			s += "o" + k
		}
	}
	return s
}

// cmpTx compares a decoded transaction with the model; "" when equal.
func cmpTx(tx *bt.Tx, m *models.RTx, extended bool) string {
	if tx == nil {
		return "nil tx"
	}
	if tx.Version != m.Version {
		return fmt.Sprintf("version %d want %d", tx.Version, m.Version)
	}
	if tx.LockTime != m.Lock {
		return fmt.Sprintf("locktime %d want %d", tx.LockTime, m.Lock)
	}
	if len(tx.Inputs) != len(m.Ins) {
		return fmt.Sprintf("%d inputs want %d", len(tx.Inputs), len(m.Ins))
	}
	if len(tx.Outputs) != len(m.Outs) {
		return fmt.Sprintf("%d outputs want %d", len(tx.Outputs), len(m.Outs))
	}
	for i, in := range tx.Inputs {
		mi := &m.Ins[i]
		if in == nil {
			return fmt.Sprintf("input %d nil", i)
		}
		id := in.PreviousTxID()
		if len(id) != 32 {
			return fmt.Sprintf("input %d txid length %d", i, len(id))
		}
		for j := 0; j < 32; j++ {
			if id[j] != mi.TxIDWire[31-j] {
				return fmt.Sprintf("input %d previous txid %x want reverse of %x", i, id, mi.TxIDWire)
			}
		}
		if in.PreviousTxOutIndex != mi.Vout {
			return fmt.Sprintf("input %d vout %d want %d", i, in.PreviousTxOutIndex, mi.Vout)
		}
		if in.SequenceNumber != mi.Seq {
			return fmt.Sprintf("input %d sequence %d want %d", i, in.SequenceNumber, mi.Seq)
		}
		if !sameBytes(scriptBytes(in.UnlockingScript), mi.Script) {
			return fmt.Sprintf("input %d unlocking script %s want %s", i, hx(scriptBytes(in.UnlockingScript)), hx(mi.Script))
		}
		if extended {
			if in.PreviousTxSatoshis != mi.PrevSats {
				return fmt.Sprintf("input %d previous value %d want %d", i, in.PreviousTxSatoshis, mi.PrevSats)
			}
			if !sameBytes(scriptBytes(in.PreviousTxScript), mi.PrevScript) {
				return fmt.Sprintf("input %d previous script %s want %s", i, hx(scriptBytes(in.PreviousTxScript)), hx(mi.PrevScript))
			}
		}
	}
	for i, o := range tx.Outputs {
		if o == nil {
			return fmt.Sprintf("output %d nil", i)
		}
		if o.Satoshis != m.Outs[i].Sats {
			return fmt.Sprintf("output %d value %d want %d", i, o.Satoshis, m.Outs[i].Sats)
		}
		if !sameBytes(scriptBytes(o.LockingScript), m.Outs[i].Script) {
			return fmt.Sprintf("output %d script %s want %s", i, hx(scriptBytes(o.LockingScript)), hx(m.Outs[i].Script))
		}
	}
	return ""
}

func firstDiff(a, b []byte) string {
	n := len(a)
	if len(b) < n {
		n = len(b)
	}
	for i := 0; i < n; i++ {
		if a[i] != b[i] {
			return fmt.Sprintf("first difference at byte %d (got %02x want %02x), lengths %d/%d", i, a[i], b[i], len(a), len(b))
		}
	}
	return fmt.Sprintf("lengths %d/%d", len(a), len(b))
}

// reserialiseCheck: decoded tx re-serialises to the canonical bytes in both formats.
// scribbleReturned: a caller may do what it likes with a returned buffer (overwrite it, append to it);
// the library's later answers must not depend on that.
func scribbleReturned(b []byte) {
	for i := range b {
		b[i] ^= 0x5a
	}
	_ = append(b, 0xEE, 0xEE, 0xEE, 0xEE, 0xEE, 0xEE, 0xEE, 0xEE, 0xEE, 0xEE, 0xEE, 0xEE, 0xEE, 0xEE, 0xEE, 0xEE)
}

func reserialiseCheck(c *kernel.RunCtx, tx *bt.Tx, m *models.RTx, extended bool, where string) bool {
	std, _ := m.Encode(false, nil)
	var got []byte
	if p := catch(func() { got = tx.Bytes() }); p != "" {
		c.Fail("panic", "Tx.Bytes", "%s: Bytes panicked: %s", where, p)
		return false
	}
	if !sameBytes(got, std) {
		c.Fail("reserialise", "Tx.Bytes", "%s: standard re-serialisation differs: %s", where, firstDiff(got, std))
		return false
	}
	if len(std) < 2000 {
		// the second answer must not depend on what the caller did with the first
		scribbleReturned(got)
		for _, n := range []int{len(m.Ins), len(m.Outs)} {
			scribbleReturned(bt.VarInt(uint64(n)).Bytes())
		}
		if again := tx.Bytes(); !sameBytes(again, std) {
			c.Fail("aliasing", "Tx.Bytes", "%s: after the caller overwrote / appended to returned buffers, Bytes() answers differently: %s", where, firstDiff(again, std))
			return false
		}
	}
	mm := m
	if !extended {
		// arrived in standard format: previous outputs are unknown (zero / empty)
		cp := *m
		cp.Ins = append([]models.RIn(nil), m.Ins...)
		for i := range cp.Ins {
			cp.Ins[i].PrevSats, cp.Ins[i].PrevScript = 0, nil
		}
		mm = &cp
	}
	ext, _ := mm.Encode(true, nil)
	if p := catch(func() { got = tx.ExtendedBytes() }); p != "" {
		c.Fail("panic", "Tx.ExtendedBytes", "%s: ExtendedBytes panicked: %s", where, p)
		return false
	}
	if !sameBytes(got, ext) {
		c.Fail("reserialise", "Tx.ExtendedBytes", "%s: extended re-serialisation differs: %s", where, firstDiff(got, ext))
		return false
	}
	want := hex.EncodeToString(m.TxIDDisplay())
	var id string
	var idb []byte
	if p := catch(func() { id = tx.TxID(); idb = tx.TxIDBytes() }); p != "" {
		c.Fail("panic", "Tx.TxID", "%s: TxID panicked: %s", where, p)
		return false
	}
	if id != want || hex.EncodeToString(idb) != want {
		c.Fail("txid", "Tx.TxID", "%s: txid %s / %x, want %s", where, id, idb, want)
		return false
	}
	// what the caller was handed stays what it was while the library goes on serialising (the same transaction in the
	// other format, its id, its parts): a caller keeps Bytes() while it asks for ExtendedBytes()
	if len(std) < 300000 {
		var held1, held2, held3 []byte
		if p := catch(func() {
			held1 = tx.Bytes()
			held2 = tx.ExtendedBytes()
			_ = tx.TxIDBytes()
			held3 = tx.Bytes()
			_ = tx.Size()
			for _, in := range tx.Inputs {
				_ = in.Bytes(false)
			}
			_ = tx.ExtendedBytes()
		}); p != "" {
			c.Fail("panic", "Tx.Bytes", "%s: repeated serialisation panicked: %s", where, p)
			return false
		}
		for i, h := range [][]byte{held1, held2, held3} {
			ref := std
			if i == 1 {
				ref = ext
			}
			if !sameBytes(h, ref) {
				c.Fail("aliasing", "Tx.Bytes", "%s: a serialisation the caller was still holding (result %d of Bytes, ExtendedBytes, Bytes) changed while the library produced later ones: %s", where, i, firstDiff(h, ref))
				return false
			}
		}
		c.Count("probe.held_serialisations_rechecked", 1)
		if len(std) >= 16384 && len(std) < 65536 {
			c.Count("probe.held_serialisation_16k_64k", 1)
		}
	}
	return true
}

func (w *c01World) Run(c *kernel.RunCtx) {
	c01recv = &c01Recv{tx: &bt.Tx{}}
	{
		// the re-used receivers start out holding an unrelated earlier decode
		seedTx := &models.RTx{Version: 7, Ins: []models.RIn{{Vout: 1, Script: []byte{0x51}, Seq: 9}}, Outs: []models.ROut{{Sats: 5, Script: []byte{0x52}}}, Lock: 3}
		lb, _, _ := models.EncodeList([]*models.RTx{seedTx, seedTx}, false, true, nil)
		_, _ = c01recv.list.ReadFrom(kernel.NewStream(lb, kernel.Plan{}))
		tb, _ := seedTx.Encode(true, nil)
		_, _ = c01recv.tx.ReadFrom(kernel.NewStream(tb, kernel.Plan{}))
	}
	heavy := 0
	if c.RunIdx%61 == 5 {
		heavy = 2 // a quota of runs that force the 65535/65536 classes
	}
	c.Begin("shape")
	extended := c.Bool(1, 2)
	container := c.Pick(3, 3, 2) // 0 single, 1 concatenated, 2 counted list
	ntx := 1
	if container > 0 {
		ntx = c.Range(1, 4)
		if container == 2 && c.Bool(1, 8) {
			ntx = 0
		}
	}
	variant := c.Pick(6, 2, 2, 2) // 0 canonical, 1 non-minimal prefixes, 2 tail, 3 mutation accepted by the reference parser
	c.End()
	var txs []*models.RTx
	for i := 0; i < ntx; i++ {
		txs = append(txs, genRTx(c, extended, &heavy))
	}
	if ntx > 1 && c.Bool(1, 4) {
		// a chain: later transactions spend outputs of earlier ones of the same stream (as in a block), with the
		// index on, at and beyond the parent's last output
		c.Begin("chain")
		for k := 1; k < ntx; k++ {
			if len(txs[k].Ins) == 0 {
				continue
			}
			parent := txs[c.Choose(k)]
			in := &txs[k].Ins[c.Choose(len(txs[k].Ins))]
			disp := parent.TxIDDisplay()
			for j := 0; j < 32; j++ {
				in.TxIDWire[j] = disp[31-j]
			}
			no := len(parent.Outs)
			in.Vout = []uint32{0, uint32(no) - 1, uint32(no), uint32(no) + 1, 0xffffffff}[c.Choose(5)]
			c.Count("probe.spends_earlier_tx_of_same_stream", 1)
		}
		c.End()
	}
	var widen map[int]int
	data, fields, ends := models.EncodeList(txs, extended, container == 2, nil)
	vname := []string{"canonical", "nonminimal", "tail", "mutated"}[variant]
	minimal := true
	switch variant {
	case 1:
		c.Begin("widen")
		widen = map[int]int{}
		k := 1 + c.Choose(3)
		for i := 0; i < k && len(fields) > 0; i++ {
			widen[c.Choose(len(fields))] = []int{3, 5, 9}[c.Pick(3, 2, 1)]
		}
		c.End()
		data, fields, ends = models.EncodeList(txs, extended, container == 2, widen)
		canon, _, _ := models.EncodeList(txs, extended, container == 2, nil)
		minimal = len(canon) == len(data)
		c.Count("probe.nonminimal_prefix", 1)
	case 2:
		c.Begin("tail")
		data = append(append([]byte(nil), data...), c.Bytes(1+c.Choose(12))...)
		c.End()
	case 3:
		// one mutation; kept only if the reference parser still accepts every transaction
		c.Begin("mutate")
		mut := append([]byte(nil), data...)
		if len(mut) > 0 {
			off := c.Choose(len(mut))
			if len(fields) > 0 && c.Bool(1, 2) {
				off = fields[c.Choose(len(fields))].Off
			}
			mut[off] ^= byte(1 << uint(c.Choose(8)))
		}
		c.End()
		if rtxs, rends, ok := refParseAll(mut, container == 2, len(txs)); ok {
			data, txs, ends = mut, rtxs, rends
			_, _, _, mn, _ := models.Decode(nil)
			_ = mn
			minimal = refAllMinimal(mut, container == 2, len(txs))
			extended = refExtended(mut, container == 2, extended)
			c.Count("probe.mutation_accepted_by_reference", 1)
		} else {
			vname = "canonical"
			variant = 0
		}
	}
	total := len(data)
	if variant != 2 && len(ends) > 0 && ends[len(ends)-1] != total {
		panic("harness: reference encoder ends mismatch")
	}
	if c.WantSample() && ntx > 0 && len(data) < 400 {
		c.Sample(map[string]interface{}{"container": []string{"single", "concatenated", "counted-list"}[container], "extended": extended, "variant": vname, "transactions": ntx, "stream_hex": hex.EncodeToString(data)})
	}
	nplans := 3 + c.Choose(4)
	if total > 200000 {
		nplans = 2
	}
	for pi := 0; pi < nplans && !c.Failed(); pi++ {
		var plan kernel.Plan
		switch pi {
		case 0:
			plan = kernel.Plan{Kind: 0}
		case 1:
			plan = kernel.Plan{Kind: 1, EOFWith: true}
			if total > 200000 {
				plan.Kind = 3
			}
		default:
			plan = kernel.DrawPlan(c.Tape)
			if total > 200000 && plan.Kind == 1 {
				plan.Kind = 2
			}
		}
		c.Count("fault.frag."+kernel.PlanNames[plan.Kind], 1)
		key := fmt.Sprintf("%d|%v|%s|%s|", container, extended, vname, kernel.PlanNames[plan.Kind])
		for _, t := range txs {
			key += shapeClass(t) + ","
		}
		nontrivial := false
		for _, t := range txs {
			if len(t.Ins)+len(t.Outs) > 0 {
				nontrivial = true
			}
		}
		if nontrivial {
			c.Distinct(key)
		}
		w.decodeStream(c, data, txs, ends, extended, container, minimal, variant == 2, plan)
	}
	if c.Failed() || ntx == 0 {
		return
	}
	w.sliceAPIs(c, data, txs, ends, extended, container, variant)
	if !c.Failed() && variant != 2 {
		w.bufferRoute(c, data, txs, ends, extended, container)
	}
	if c.Failed() {
		return
	}
	w.apiBuilt(c, txs[0], extended)
	w.fieldDecoders(c, txs[0], extended)
	if !c.Failed() {
		w.appendEdit(c, txs[0], extended)
	}
	if !c.Failed() && c.RunIdx%29 == 3 {
		w.quotas(c)
	}
	if !c.Failed() && len(data) < 4000 {
		w.wild(c, data)
	}
}

// quotas: shapes the seeded generator reaches too rarely. (a) A field longer than the decoder's read chunk that ENDS
// the stream, on readers that deliver the last bytes together with io.EOF, through the per-part decoders. (b) A
// counted list of thousands of transactions followed by other data on the same reader: the list decoder must not
// take a byte more than the list.
func (w *c01World) quotas(c *kernel.RunCtx) {
	c.Begin("quotas")
	n := 65537 + c.Choose(200000)
	kind := c.Choose(6)
	seed := c.U64n(1 << 32)
	nlist := 5000 + c.Choose(3000)
	lkind := c.Choose(6)
	c.End()
	script := make([]byte, n)
	for i := range script {
		script[i] = byte(i*13 + n)
	}
	plan := kernel.Plan{Kind: kind, Seed: seed, EOFWith: true}
	{
		body := append([]byte{1, 2, 3, 4, 5, 6, 7, 8}, models.VarInt(uint64(n))...)
		body = append(body, script...)
		st := kernel.NewStream(body, plan)
		o := &bt.Output{}
		var got int64
		var err error
		c.Exec()
		if pn := catch(func() { got, err = o.ReadFrom(st) }); pn != "" || err != nil || int(got) != len(body) || st.Supplied != len(body) || !sameBytes(scriptBytes(o.LockingScript), script) {
			c.Fail("decode", "Output.ReadFrom", "an output with a %d-byte script that ends the stream (last bytes delivered together with io.EOF, plan %s): panic=%q err=%v n=%d supplied=%d of %d", n, plan, pn, err, got, st.Supplied, len(body))
			return
		}
	}
	{
		var body []byte
		body = append(body, make([]byte, 32)...)
		body = append(body, 1, 0, 0, 0)
		body = append(body, 1, 0x51)
		body = append(body, 0xfe, 0xff, 0xff, 0xff)
		body = append(body, 9, 0, 0, 0, 0, 0, 0, 0)
		body = append(body, models.VarInt(uint64(n))...)
		body = append(body, script...)
		st := kernel.NewStream(body, plan)
		in := &bt.Input{}
		var got int64
		var err error
		c.Exec()
		if pn := catch(func() { got, err = in.ReadFromExtended(st) }); pn != "" || err != nil || int(got) != len(body) || st.Supplied != len(body) || !sameBytes(scriptBytes(in.PreviousTxScript), script) || in.PreviousTxSatoshis != 9 {
			c.Fail("decode", "Input.ReadFromExtended", "an extended input with a %d-byte previous script that ends the stream (plan %s): panic=%q err=%v n=%d supplied=%d of %d", n, plan, pn, err, got, st.Supplied, len(body))
			return
		}
	}
	c.Count("probe.big_field_ends_stream_with_eof", 1)
	{
		// built through the API, not signed yet (nil unlocking scripts), more than a MiB of script data: id and bytes
		// against the reference encoding
		big := make([]byte, (1<<20)+n)
		for i := range big {
			big[i] = byte(i * 7)
		}
		m := &models.RTx{Version: 1, Lock: 9,
			Ins:  []models.RIn{{Vout: 1, Seq: 0xffffffff, PrevSats: 7, PrevScript: p2pkh(make([]byte, 20))}, {Vout: 2, Seq: 5, PrevSats: 8, PrevScript: p2pkh(make([]byte, 20))}},
			Outs: []models.ROut{{Sats: 0, Script: append([]byte{0x00, 0x6a}, big...)}, {Sats: 3, Script: p2pkh(make([]byte, 20))}}}
		tx := bt.NewTx()
		tx.Version, tx.LockTime = m.Version, m.Lock
		okBuilt := true
		for i := range m.Ins {
			mi := &m.Ins[i]
			if err := tx.FromUTXOs(&bt.UTXO{TxID: make([]byte, 32), Vout: mi.Vout, Satoshis: mi.PrevSats, LockingScript: scriptPtr(mi.PrevScript)}); err != nil || len(tx.Inputs) != i+1 {
				okBuilt = false
				break
			}
			tx.Inputs[i].SequenceNumber = mi.Seq
		}
		if okBuilt {
			for _, o := range m.Outs {
				tx.AddOutput(&bt.Output{Satoshis: o.Sats, LockingScript: scriptPtr(o.Script)})
			}
			c.Exec()
			if !reserialiseCheck(c, tx, m, true, "API-built unsigned transaction with more than a MiB of script data") {
				return
			}
			c.Count("probe.big_unsigned_api_built_tx", 1)
		}
	}
	{
		// verifying an input whose spent script has an OP_CODESEPARATOR in front of its CHECKSIG (the signature is
		// rubbish; the verdict does not matter): the transaction must be what it was
		lock := append([]byte{0x61, 0xab, 0x21}, make([]byte, 33)...)
		lock[3] = 0x02
		lock = append(lock, 0xac)
		m := &models.RTx{Version: 1, Ins: []models.RIn{{Vout: 1, Seq: 0xffffffff, Script: []byte{0x09, 0x30, 0x06, 0x02, 0x01, 0x01, 0x02, 0x01, 0x01, 0x41}, PrevSats: 5000, PrevScript: lock}},
			Outs: []models.ROut{{Sats: 1, Script: p2pkh(make([]byte, 20))}}}
		enc, _ := m.Encode(true, nil)
		tx, err := bt.NewTxFromBytes(enc)
		if err == nil {
			c.Exec()
			inspectTx(tx, 5)
			if d := cmpTx(tx, m, true); d != "" {
				c.Fail("aliasing", "script verification of input 0", "verifying input 0 (spent script NOP CODESEPARATOR <key> CHECKSIG) changed the transaction: %s", d)
				return
			}
			if !reserialiseCheck(c, tx, m, true, "after input 0 (spent script with OP_CODESEPARATOR) was verified") {
				return
			}
		}
	}
	{
		one, _ := (&models.RTx{Version: 2, Lock: 7}).Encode(false, nil)
		list := append([]byte(nil), models.VarInt(uint64(nlist))...)
		for i := 0; i < nlist; i++ {
			list = append(list, one...)
		}
		end := len(list)
		list = append(list, make([]byte, 150000)...) // what follows on the caller's reader
		lp := kernel.Plan{Kind: lkind, Seed: seed ^ 0x77}
		st := kernel.NewStream(list, lp)
		var l bt.Txs
		var got int64
		var err error
		c.Exec()
		if pn := catch(func() { got, err = l.ReadFrom(st) }); pn != "" || err != nil || len(l) != nlist || int(got) != end || st.Supplied != end {
			c.Fail("consumed", "Txs.ReadFrom", "a counted list of %d transactions (%d bytes) followed by other data (plan %s): panic=%q err=%v decoded=%d reported=%d, the reader was advanced to %d", nlist, end, lp, pn, err, len(l), got, st.Supplied)
			return
		}
		c.Count("probe.list_of_thousands_with_data_after_it", 1)
	}
}

// inspectTx uses one group of read-only features of the library on tx and returns its name.
func inspectTx(tx *bt.Tx, which int) string {
	names := []string{"size / fee estimation", "json.Marshal", "json.Marshal(NodeJSON)", "script inspection (ToASM, ScriptType, …)", "Clone", "script verification of input 0", "String / TxID / Size"}
	which %= len(names)
	_ = catch(func() {
		switch which {
		case 0:
			fq := bt.NewFeeQuote()
			_, _ = tx.EstimateSize()
			_, _ = tx.EstimateSizeWithTypes()
			_, _ = tx.EstimateFeesPaid(fq)
			_, _ = tx.EstimateIsFeePaidEnough(fq)
			_, _ = tx.IsFeePaidEnough(fq)
			_ = tx.SizeWithTypes()
		case 1:
			_, _ = json.Marshal(tx)
		case 2:
			_, _ = json.Marshal(tx.NodeJSON())
		case 3:
			look := func(sp *bscript.Script) {
				if sp == nil {
					return
				}
				_ = catch(func() { _, _ = sp.ToASM() })
				_ = catch(func() { _ = sp.ScriptType() })
				_ = catch(func() { _, _ = sp.Addresses() })
				_ = catch(func() { _, _ = sp.PublicKeyHash() })
				_ = catch(func() { _ = sp.IsP2PKH(); _ = sp.IsData(); _ = sp.IsMultiSigOut(); _ = sp.IsP2SH(); _ = sp.IsP2PK() })
			}
			for _, in := range tx.Inputs {
				look(in.UnlockingScript)
				look(in.PreviousTxScript)
			}
			for _, o := range tx.Outputs {
				look(o.LockingScript)
			}
		case 4:
			_ = tx.Clone()
		case 5:
			if len(tx.Inputs) > 0 && tx.Inputs[0].PreviousTxScript != nil && tx.Inputs[0].UnlockingScript != nil && len(*tx.Inputs[0].PreviousTxScript) < 2000 {
				prev := &bt.Output{Satoshis: tx.Inputs[0].PreviousTxSatoshis, LockingScript: tx.Inputs[0].PreviousTxScript}
				_ = interpreter.NewEngine().Execute(interpreter.WithTx(tx, 0, prev), interpreter.WithAfterGenesis(), interpreter.WithForkID())
			}
		default:
			_ = tx.String()
			_ = tx.TxID()
			_ = tx.Size()
		}
	})
	return names[which]
}

// appendEdit: a decoded transaction is edited by growing ONE of its scripts (what Script.AppendOpcodes /
// AppendPushData do); every other field must stay what was decoded, so the result serialises to the
// reference encoding of the model with that one script grown.
func (w *c01World) appendEdit(c *kernel.RunCtx, m *models.RTx, extended bool) {
	type slot struct{ in, out, prev int }
	var slots []slot
	for i := range m.Ins {
		slots = append(slots, slot{i, -1, 0})
		if extended {
			slots = append(slots, slot{i, -1, 1})
		}
	}
	for i := range m.Outs {
		slots = append(slots, slot{-1, i, 0})
	}
	if len(slots) < 2 {
		return
	}
	c.Begin("append-edit")
	sl := slots[c.Choose(len(slots))]
	n := 1 + c.Choose(40)
	route := c.Choose(3)
	c.End()
	enc, _ := m.Encode(extended, nil)
	var tx *bt.Tx
	var err error
	c.Exec()
	if pn := catch(func() {
		switch route {
		case 0:
			tx, err = bt.NewTxFromBytes(append([]byte(nil), enc...))
		case 1:
			tx = &bt.Tx{}
			_, err = tx.ReadFrom(kernel.NewStream(enc, kernel.Plan{}))
		default:
			var l bt.Txs
			_, err = l.ReadFrom(kernel.NewStream(append(models.VarInt(1), enc...), kernel.Plan{}))
			if err == nil && len(l) == 1 {
				tx = l[0]
			}
		}
	}); pn != "" || err != nil || tx == nil {
		return // judged by the decoding oracles
	}
	if d := cmpTx(tx, m, extended); d != "" {
		c.Fail("fields", []string{"NewTxFromBytes", "Tx.ReadFrom", "Txs.ReadFrom"}[route], "a valid %s encoding (extended=%v) was decoded differently (route %d): %s", "transaction", extended, route, d)
		return
	}
	// other features of the library are used on the decoded transaction; none of them is documented to change it, so
	// it must still be what was decoded and serialise to the bytes it came from
	feature := inspectTx(tx, c.RunIdx/16+route)
	c.Count("probe.other_features_used_on_decoded_tx", 1)
	if d := cmpTx(tx, m, extended); d != "" {
		c.Fail("aliasing", feature, "using %s on a decoded transaction changed it: %s", feature, d)
		return
	}
	if !reserialiseCheck(c, tx, m, extended, "after "+feature+" was used on the decoded transaction") {
		return
	}
	if (c.RunIdx/16)%3 == 2 {
		// the edit below is made on a clone
		var cl *bt.Tx
		if pn := catch(func() { cl = tx.Clone() }); pn != "" || cl == nil {
			c.Fail("panic", "Tx.Clone", "Clone of a decoded transaction panicked: %s", pn)
			return
		}
		tx = cl
		c.Count("probe.append_edit_on_a_clone", 1)
	}
	mm := *m
	mm.Ins = append([]models.RIn(nil), m.Ins...)
	mm.Outs = append([]models.ROut(nil), m.Outs...)
	tail := make([]byte, n)
	for i := range tail {
		tail[i] = 0x61 // OP_NOP
	}
	var sp **bscript.Script
	var ms *[]byte
	switch {
	case sl.out >= 0:
		sp, ms = &tx.Outputs[sl.out].LockingScript, &mm.Outs[sl.out].Script
	case sl.prev == 1:
		sp, ms = &tx.Inputs[sl.in].PreviousTxScript, &mm.Ins[sl.in].PrevScript
	default:
		sp, ms = &tx.Inputs[sl.in].UnlockingScript, &mm.Ins[sl.in].Script
	}
	if *sp == nil {
		return
	}
	**sp = append(**sp, tail...)
	*ms = append(append([]byte(nil), *ms...), tail...)
	c.Count("probe.append_to_decoded_script", 1)
	if d := cmpTx(tx, &mm, extended); d != "" {
		c.Fail("aliasing", "Tx.ReadFrom", "appending %d bytes to one script of a decoded transaction (input %d / output %d, route %d) changed another field: %s", n, sl.in, sl.out, route, d)
		return
	}
	reserialiseCheck(c, tx, &mm, extended, "after appending to one script of a decoded transaction")
}

// wild: arbitrary edits of a valid stream. Whatever comes out, the library and the reference parser
// must agree on acceptance, on where the first transaction ends, on every field, and an accepted
// minimally-encoded transaction must re-serialise (in its arrival format) to the bytes consumed.
func (w *c01World) wild(c *kernel.RunCtx, data []byte) {
	c.Begin("wild")
	b := append([]byte(nil), data...)
	for k := 1 + c.Choose(3); k > 0 && len(b) > 0; k-- {
		off := c.Choose(len(b))
		switch c.Pick(3, 2, 2, 2, 1, 2) {
		case 5:
			// a one-byte count or length becomes a nine-byte one whose low half is the old value and whose high half
			// is not zero: 2^32 x h + k elements are claimed, k are there
			if b[off] < 0xfd {
				wide := []byte{0xff, b[off], 0, 0, 0, byte(1 + c.Choose(255)), 0, 0, 0}
				if c.Bool(1, 3) {
					wide[8] = byte(1 + c.Choose(255))
				}
				b = append(b[:off:off], append(wide, b[off+1:]...)...)
				c.Count("probe.wild_count_widened_with_high_half", 1)
			}
		case 0:
			b[off] ^= 1 << uint(c.Choose(8))
		case 1:
			b = append(b[:off:off], b[off+1:]...)
		case 2:
			b = append(b[:off:off], append([]byte{byte(c.Choose(256))}, b[off:]...)...)
		case 3:
			n := 1 + c.Choose(8)
			if off+n > len(b) {
				n = len(b) - off
			}
			b = append(b[:off+n:off+n], append(append([]byte(nil), b[off:off+n]...), b[off+n:]...)...)
		default:
			b = b[:off]
		}
	}
	plan := kernel.DrawPlan(c.Tape)
	c.End()
	ref, rused, rext, rmin, rerr := models.Decode(b)
	st := kernel.NewStream(b, plan)
	tx := &bt.Tx{}
	var n int64
	var err error
	c.Exec()
	if p := catch(func() { n, err = tx.ReadFrom(st) }); p != "" {
		c.Fail("panic", "Tx.ReadFrom", "Tx.ReadFrom panicked on an edited stream %x: %s", b, p)
		return
	}
	c.Count("probe.wild_streams", 1)
	if (err == nil) != (rerr == nil) {
		c.Fail("acceptance", "Tx.ReadFrom", "edited stream %s: library accepted=%v (err %v), reference parser accepted=%v", hx(b), err == nil, err, rerr == nil)
		return
	}
	if err != nil {
		return
	}
	c.Count("probe.wild_accepted", 1)
	if int(n) != rused || st.Supplied != rused {
		c.Fail("consumed", "Tx.ReadFrom", "edited stream %s: library consumed %d (reader advanced %d), the transaction ends at %d", hx(b), n, st.Supplied, rused)
		return
	}
	if d := cmpTx(tx, ref, rext); d != "" {
		c.Fail("fields", "Tx.ReadFrom", "edited stream %s: %s", hx(b), d)
		return
	}
	if rmin {
		got := tx.Bytes()
		if rext {
			got = tx.ExtendedBytes()
		}
		if !sameBytes(got, b[:rused]) {
			c.Fail("reserialise", "Tx.ReadFrom", "edited stream %s is accepted with minimal prefixes but re-serialises differently: %s", hx(b), firstDiff(got, b[:rused]))
		}
	}
}

func refParseAll(b []byte, counted bool, n int) ([]*models.RTx, []int, bool) {
	p := 0
	if counted {
		// the count prefix itself must be intact
		vb := models.VarInt(uint64(n))
		if len(b) < len(vb) || !sameBytes(b[:len(vb)], vb) {
			return nil, nil, false
		}
		p = len(vb)
	}
	var txs []*models.RTx
	var ends []int
	for i := 0; i < n; i++ {
		t, used, _, _, err := models.Decode(b[p:])
		if err != nil {
			return nil, nil, false
		}
		for _, in := range t.Ins {
			_ = in
		}
		p += used
		txs = append(txs, t)
		ends = append(ends, p)
	}
	if p != len(b) {
		return nil, nil, false
	}
	return txs, ends, true
}

func refAllMinimal(b []byte, counted bool, n int) bool {
	p := 0
	if counted {
		p = len(models.VarInt(uint64(n)))
	}
	for i := 0; i < n; i++ {
		_, used, _, mn, err := models.Decode(b[p:])
		if err != nil || !mn {
			return false
		}
		p += used
	}
	return true
}

// refExtended: a mutation may flip a stream between formats only if every tx agrees; report the format of the first.
func refExtended(b []byte, counted bool, def bool) bool {
	p := 0
	if counted {
		_, p = refVarInt(b)
	}
	_, _, ext, _, err := models.Decode(b[p:])
	if err != nil {
		return def
	}
	return ext
}

func refVarInt(b []byte) (uint64, int) {
	if len(b) == 0 {
		return 0, 0
	}
	switch b[0] {
	case 0xfd:
		return 0, 3
	case 0xfe:
		return 0, 5
	case 0xff:
		return 0, 9
	}
	return uint64(b[0]), 1
}

// decodeStream: the receiver reads the whole stream through one simulated reader.
// bufferRoute: the transaction arrives in a *bytes.Buffer / *bytes.Reader / bufio.Reader the caller owns and re-uses.
// After decoding, the caller's storage is overwritten; what was decoded must not change.
func (w *c01World) bufferRoute(c *kernel.RunCtx, data []byte, txs []*models.RTx, ends []int, extended bool, container int) {
	if container == 2 || len(txs) == 0 {
		return
	}
	c.Begin("buffer-route")
	kind := c.Choose(3)
	c.End()
	own := append([]byte(nil), data...)
	var rd io.Reader
	var bb *bytes.Buffer
	switch kind {
	case 0:
		bb = bytes.NewBuffer(own)
		rd = bb
	case 1:
		rd = bytes.NewReader(own)
	default:
		rd = bufio.NewReaderSize(bytes.NewReader(own), 16+len(own))
	}
	tx := &bt.Tx{}
	var n int64
	var err error
	c.Exec()
	if p := catch(func() { n, err = tx.ReadFrom(rd) }); p != "" || err != nil || int(n) != ends[0] {
		c.Fail("decode", "Tx.ReadFrom", "reading from a %s: panic=%q err=%v n=%d want %d", []string{"*bytes.Buffer", "*bytes.Reader", "*bufio.Reader"}[kind], p, err, n, ends[0])
		return
	}
	// the caller recycles its storage
	for i := range own {
		own[i] = 0xA5
	}
	if bb != nil {
		bb.Reset()
		bb.Write(bytes.Repeat([]byte{0x5A}, len(own)))
	}
	c.Count("probe.caller_buffer_recycled", 1)
	ext := extendedOf(data, ends, 0, container, extended)
	if d := cmpTx(tx, txs[0], ext); d != "" {
		c.Fail("aliasing", "Tx.ReadFrom", "after the caller overwrote the %s it had decoded from, the decoded transaction changed: %s", []string{"*bytes.Buffer", "*bytes.Reader", "*bufio.Reader"}[kind], d)
	}
}

func (w *c01World) decodeStream(c *kernel.RunCtx, data []byte, txs []*models.RTx, ends []int, extended bool, container int, minimal bool, hasTail bool, plan kernel.Plan) {
	st := kernel.NewStream(data, plan)
	c.Logf("decode container=%d extended=%v ntx=%d bytes=%d plan=%s", container, extended, len(txs), len(data), plan)
	c.Exec()
	if container == 2 {
		var fresh bt.Txs
		list := &fresh
		if c01recv.used%2 == 1 {
			list = &c01recv.list // re-used receiver: still holds the previous decode's result
			c.Count("probe.receiver_reused", 1)
			if len(data)%3 == 0 && len(data) > 4 {
				// ... or the remains of a decode that failed halfway through this very stream
				_ = catch(func() { _, _ = list.ReadFrom(kernel.NewStream(data[:len(data)*2/3], kernel.Plan{})) })
				c.Count("probe.receiver_failed_halfway_first", 1)
			} else if len(data)%3 == 1 && len(txs) > 0 {
				// ... or an earlier version of the same transactions (same outpoints, everything else different)
				var rel []*models.RTx
				for _, m := range txs {
					rel = append(rel, relatedVariant(m))
				}
				rb, _, _ := models.EncodeList(rel, true, true, nil)
				_ = catch(func() { _, _ = list.ReadFrom(kernel.NewStream(rb, kernel.Plan{})) })
				c.Count("probe.receiver_held_related_tx", 1)
			}
		}
		c01recv.used++
		var n int64
		var err error
		if p := catch(func() { n, err = list.ReadFrom(st) }); p != "" {
			c.Fail("panic", "Txs.ReadFrom", "Txs.ReadFrom panicked under plan %s: %s", plan, p)
			return
		}
		want := len(data)
		if hasTail && len(ends) > 0 {
			want = ends[len(ends)-1]
		} else if hasTail {
			want = len(models.VarInt(0))
		}
		if err != nil {
			c.Fail("decode", "Txs.ReadFrom", "counted list of %d transactions rejected under plan %s: %v", len(txs), plan, err)
			return
		}
		if int(n) != want || st.Supplied != want {
			c.Fail("consumed", "Txs.ReadFrom", "Txs.ReadFrom reported %d bytes, stream handed out %d, list ends at %d (plan %s)", n, st.Supplied, want, plan)
			return
		}
		if len(*list) != len(txs) {
			c.Fail("decode", "Txs.ReadFrom", "list has %d transactions want %d (receiver re-used: %v)", len(*list), len(txs), list == &c01recv.list)
			return
		}
		for i, tx := range *list {
			if d := cmpTx(tx, txs[i], extendedOf(data, ends, i, container, extended)); d != "" {
				c.Fail("fields", "Txs.ReadFrom", "transaction %d of list (plan %s): %s", i, plan, d)
				return
			}
			if !reserialiseCheck(c, tx, txs[i], extendedOf(data, ends, i, container, extended), fmt.Sprintf("list tx %d plan %s", i, plan)) {
				return
			}
		}
		w.siblingIsolation(c, *list, txs, data, ends, container, extended, "Txs.ReadFrom")
		return
	}
	var decoded []*bt.Tx
	prev := 0
	for i, m := range txs {
		tx := &bt.Tx{}
		if i == len(txs)-1 && c01recv.used%2 == 1 {
			tx = c01recv.tx // re-used receiver
			c.Count("probe.receiver_reused", 1)
			if len(data)%3 == 0 && ends[i]-prev > 4 {
				_ = catch(func() { _, _ = tx.ReadFrom(kernel.NewStream(data[prev:prev+(ends[i]-prev)*2/3], kernel.Plan{})) })
				c.Count("probe.receiver_failed_halfway_first", 1)
			} else if len(data)%3 == 1 {
				rb, _ := relatedVariant(m).Encode(true, nil)
				_ = catch(func() { _, _ = tx.ReadFrom(kernel.NewStream(rb, kernel.Plan{})) })
				c.Count("probe.receiver_held_related_tx", 1)
			}
		}
		c01recv.used++
		decoded = append(decoded, tx)
		var n int64
		var err error
		if p := catch(func() { n, err = tx.ReadFrom(st) }); p != "" {
			c.Fail("panic", "Tx.ReadFrom", "Tx.ReadFrom panicked under plan %s: %s", plan, p)
			return
		}
		if err != nil {
			c.Fail("decode", "Tx.ReadFrom", "transaction %d/%d rejected under plan %s after %d bytes: %v", i, len(txs), plan, n, err)
			return
		}
		if int(n) != ends[i]-prev {
			c.Fail("consumed", "Tx.ReadFrom", "transaction %d/%d: ReadFrom reported %d bytes, its encoding is %d bytes (plan %s)", i, len(txs), n, ends[i]-prev, plan)
			return
		}
		if st.Supplied != ends[i] {
			c.Fail("consumed", "Tx.ReadFrom", "transaction %d/%d: reader was advanced to offset %d, transaction ends at %d (plan %s)", i, len(txs), st.Supplied, ends[i], plan)
			return
		}
		ext := extendedOf(data, ends, i, container, extended)
		if d := cmpTx(tx, m, ext); d != "" {
			c.Fail("fields", "Tx.ReadFrom", "transaction %d/%d (plan %s): %s", i, len(txs), plan, d)
			return
		}
		if minimal {
			// arrival-format bytes must come back exactly
			var got []byte
			if ext {
				got = tx.ExtendedBytes()
			} else {
				got = tx.Bytes()
			}
			if !sameBytes(got, data[prev:ends[i]]) {
				c.Fail("reserialise", "Tx.ReadFrom", "transaction %d/%d does not re-serialise to the bytes it arrived as (plan %s): %s", i, len(txs), plan, firstDiff(got, data[prev:ends[i]]))
				return
			}
		}
		if !reserialiseCheck(c, tx, m, ext, fmt.Sprintf("stream tx %d plan %s", i, plan)) {
			return
		}
		prev = ends[i]
	}
	if len(decoded) == 1 {
		// a second, independent decode of the same bytes is the sibling
		if tx2, _, err := bt.NewTxFromStream(data); err == nil {
			decoded = append(decoded, tx2)
			w.siblingIsolation(c, decoded, []*models.RTx{txs[0], txs[0]}, data, []int{ends[0], ends[0]}, 0, extended, "Tx.ReadFrom")
		}
	} else {
		w.siblingIsolation(c, decoded, txs, data, ends, container, extended, "Tx.ReadFrom")
	}
	if c.Failed() {
		return
	}
	if !hasTail {
		// at the end of the stream the next ReadFrom must consume nothing and fail
		tx := &bt.Tx{}
		var n int64
		var err error
		if p := catch(func() { n, err = tx.ReadFrom(st) }); p != "" {
			c.Fail("panic", "Tx.ReadFrom", "Tx.ReadFrom at end of stream panicked: %s", p)
			return
		}
		if err == nil || n != 0 {
			c.Fail("consumed", "Tx.ReadFrom", "ReadFrom on an exhausted stream returned n=%d err=%v, want 0 and an error", n, err)
			return
		}
		if err != io.EOF && err.Error() == "" {
			return
		}
	}
}

// siblingIsolation: decoded transactions must not share mutable state. The first decoded object is
// modified in place through its script pointers; every other object decoded from the stream must
// still equal the model.
func (w *c01World) siblingIsolation(c *kernel.RunCtx, decoded []*bt.Tx, txs []*models.RTx, data []byte, ends []int, container int, extended bool, site string) {
	if len(decoded) < 2 || c.Failed() {
		return
	}
	first := decoded[0]
	grow := func(sp *bscript.Script) {
		if sp == nil {
			return
		}
		for i := range *sp {
			(*sp)[i] ^= 0xa5
		}
		*sp = append(*sp, 0x51, 0x52)
	}
	for _, in := range first.Inputs {
		grow(in.UnlockingScript)
		grow(in.PreviousTxScript)
		id := in.PreviousTxID()
		for i := range id {
			id[i] ^= 0xff
		}
	}
	for _, o := range first.Outputs {
		grow(o.LockingScript)
	}
	c.Count("probe.sibling_isolation_checked", 1)
	for i := 1; i < len(decoded); i++ {
		ext := extended
		if len(ends) == len(decoded) && !(ends[0] == ends[len(ends)-1]) {
			ext = extendedOf(data, ends, i, container, extended)
		}
		if d := cmpTx(decoded[i], txs[i], ext); d != "" {
			c.Fail("aliasing", site, "modifying one decoded transaction in place changed another one decoded from the same stream (transaction %d): %s", i, d)
			return
		}
	}
}

// extendedOf: after a mutation each transaction of a concatenated stream is classified on its own.
func extendedOf(data []byte, ends []int, i, container int, def bool) bool {
	start := 0
	if i > 0 {
		start = ends[i-1]
	} else if container == 2 {
		_, start = refVarInt(data)
	}
	if start+10 <= len(data) {
		s := data[start+4 : start+10]
		return s[0] == 0 && s[1] == 0 && s[2] == 0 && s[3] == 0 && s[4] == 0 && s[5] == 0xEF
	}
	return def
}

func (w *c01World) sliceAPIs(c *kernel.RunCtx, data []byte, txs []*models.RTx, ends []int, extended bool, container int, variant int) {
	if container == 2 {
		return
	}
	c.Exec()
	var tx *bt.Tx
	var used int
	var err error
	if p := catch(func() { tx, used, err = bt.NewTxFromStream(data) }); p != "" {
		c.Fail("panic", "NewTxFromStream", "NewTxFromStream panicked: %s", p)
		return
	}
	if err != nil || used != ends[0] {
		c.Fail("consumed", "NewTxFromStream", "NewTxFromStream used=%d err=%v, first transaction ends at %d", used, err, ends[0])
		return
	}
	if d := cmpTx(tx, txs[0], extendedOf(data, ends, 0, container, extended)); d != "" {
		c.Fail("fields", "NewTxFromStream", "%s", d)
		return
	}
	var tx2 *bt.Tx
	if p := catch(func() { tx2, err = bt.NewTxFromBytes(data) }); p != "" {
		c.Fail("panic", "NewTxFromBytes", "NewTxFromBytes panicked: %s", p)
		return
	}
	exact := ends[0] == len(data)
	if exact && (err != nil || cmpTx(tx2, txs[0], extendedOf(data, ends, 0, container, extended)) != "") {
		c.Fail("decode", "NewTxFromBytes", "NewTxFromBytes rejected or mis-decoded exactly one transaction: err=%v %s", err, cmpTx(tx2, txs[0], extended))
		return
	}
	if !exact && err == nil {
		c.Count("probe.trailing_bytes_case", 1)
		c.Fail("consumed", "NewTxFromBytes", "NewTxFromBytes accepted %d bytes although the transaction ends at %d (trailing bytes not rejected)", len(data), ends[0])
		return
	}
	if !exact {
		c.Count("probe.trailing_bytes_case", 1)
	}
	if exact {
		var tx3 *bt.Tx
		hs := hex.EncodeToString(data)
		if p := catch(func() { tx3, err = bt.NewTxFromString(hs) }); p != "" || err != nil || cmpTx(tx3, txs[0], extendedOf(data, ends, 0, container, extended)) != "" {
			c.Fail("decode", "NewTxFromString", "NewTxFromString failed on the hex of one transaction: panic=%q err=%v", p, err)
			return
		}
		// the string route must consume the whole string too: anything after the transaction is an error
		for _, tail := range []string{"0", "a", "00", "z", "0z", " ", "\n"} {
			var tx4 *bt.Tx
			if p := catch(func() { tx4, err = bt.NewTxFromString(hs + tail) }); p != "" || err == nil {
				c.Fail("consumed", "NewTxFromString", "NewTxFromString accepted the hex of one transaction followed by %q (panic=%q, tx=%v)", tail, p, tx4 != nil)
				return
			}
		}
		c.Count("probe.string_route_tails", 1)
	}
}

// apiBuilt: the same transaction constructed through the public API must serialise to the reference bytes.
func (w *c01World) apiBuilt(c *kernel.RunCtx, m *models.RTx, extended bool) {
	c.Exec()
	c.Begin("api")
	style := c.Choose(3)
	nilPrev := c.Bool(1, 2)
	brokenFirst := c.Bool(1, 6)
	c.End()
	if brokenFirst {
		// state left behind by a failed call: ask for the id / bytes of a transaction that cannot be serialised
		// (an output without a locking script panics), recover, and carry on with well-formed ones
		bad := bt.NewTx()
		bad.AddOutput(&bt.Output{Satoshis: 1, LockingScript: scriptPtr([]byte{0x51})})
		bad.AddOutput(&bt.Output{Satoshis: 2})
		_ = catch(func() { _ = bad.TxID() })
		_ = catch(func() { _ = bad.ExtendedBytes() })
		c.Count("probe.failed_call_before_valid_ones", 1)
	}
	tx := bt.NewTx()
	tx.Version, tx.LockTime = m.Version, m.Lock
	for i := range m.Ins {
		mi := &m.Ins[i]
		id := make([]byte, 32)
		for j := range id {
			id[j] = mi.TxIDWire[31-j]
		}
		if style == 2 {
			// the string door: hex txid, hex previous script
			if err := tx.From(hex.EncodeToString(id), mi.Vout, hex.EncodeToString(mi.PrevScript), mi.PrevSats); err != nil {
				c.Fail("api", "Tx.From", "From rejected a 64-digit txid and a hex script: %v", err)
				return
			}
			if len(tx.Inputs) != i+1 {
				c.Fail("api", "Tx.From", "From returned nil but the transaction has %d inputs, want %d", len(tx.Inputs), i+1)
				return
			}
			in := tx.Inputs[len(tx.Inputs)-1]
			in.SequenceNumber = mi.Seq
			in.UnlockingScript = scriptPtr(mi.Script)
		} else if style == 0 {
			var ls = scriptPtr(mi.PrevScript)
			if len(mi.PrevScript) == 0 && nilPrev {
				ls = nil
			}
			if err := tx.FromUTXOs(&bt.UTXO{TxID: id, Vout: mi.Vout, Satoshis: mi.PrevSats, LockingScript: ls}); err != nil {
				c.Fail("api", "FromUTXOs", "FromUTXOs rejected a 32-byte txid: %v", err)
				return
			}
			if len(tx.Inputs) != i+1 {
				c.Fail("api", "FromUTXOs", "FromUTXOs returned nil but the transaction has %d inputs, want %d", len(tx.Inputs), i+1)
				return
			}
			in := tx.Inputs[len(tx.Inputs)-1]
			in.SequenceNumber = mi.Seq
			if len(mi.Script) > 0 || !nilPrev {
				in.UnlockingScript = scriptPtr(mi.Script)
			}
		} else {
			in := &bt.Input{PreviousTxOutIndex: mi.Vout, SequenceNumber: mi.Seq, PreviousTxSatoshis: mi.PrevSats, UnlockingScript: scriptPtr(mi.Script)}
			if len(mi.PrevScript) > 0 || !nilPrev {
				in.PreviousTxScript = scriptPtr(mi.PrevScript)
			}
			if err := in.PreviousTxIDAdd(id); err != nil {
				c.Fail("api", "PreviousTxIDAdd", "PreviousTxIDAdd rejected a 32-byte txid: %v", err)
				return
			}
			tx.Inputs = append(tx.Inputs, in)
		}
	}
	for k, o := range m.Outs {
		if style == 2 && len(o.Script) == 25 && sameBytes(o.Script, p2pkh(o.Script[3:23])) {
			// helper doors for pay-to-public-key-hash outputs
			var err error
			if k%2 == 0 {
				err = tx.AddP2PKHOutputFromPubKeyHashStr(hex.EncodeToString(o.Script[3:23]), o.Sats)
			} else {
				err = tx.PayTo(scriptPtr(o.Script), o.Sats)
			}
			if err != nil {
				c.Fail("api", "Tx.PayTo", "a P2PKH output helper rejected a well-formed template: %v", err)
				return
			}
			c.Count("probe.output_helper_routes", 1)
			continue
		}
		if style == 1 {
			// one object used in two places: an exact duplicate of an earlier output is the same *Output (or at least
			// shares its *Script) — documented nowhere as forbidden, and both places must be serialised
			shared := false
			for j := 0; j < k && j < len(tx.Outputs); j++ {
				if sameBytes(m.Outs[j].Script, o.Script) && len(o.Script) > 0 {
					if m.Outs[j].Sats == o.Sats && k%2 == 0 {
						tx.AddOutput(tx.Outputs[j])
					} else {
						tx.AddOutput(&bt.Output{Satoshis: o.Sats, LockingScript: tx.Outputs[j].LockingScript})
					}
					shared = true
					c.Count("probe.one_object_in_two_outputs", 1)
					break
				}
			}
			if shared {
				continue
			}
		}
		tx.AddOutput(&bt.Output{Satoshis: o.Sats, LockingScript: scriptPtr(o.Script)})
	}
	// per-part serialisers and the size getter must agree with the reference encoding of the same parts
	{
		std, _ := m.Encode(false, nil)
		var sz int
		if p := catch(func() { sz = tx.Size() }); p != "" || sz != len(std) {
			c.Fail("reserialise", "Tx.Size", "Size() = %d (panic=%q), the standard serialisation has %d bytes", sz, p, len(std))
			return
		}
		for i := range m.Ins {
			one := &models.RTx{Ins: m.Ins[i : i+1]}
			b, _ := one.Encode(false, nil)
			want := b[5 : len(b)-5]
			var got []byte
			if p := catch(func() { got = tx.Inputs[i].Bytes(false) }); p != "" || !sameBytes(got, want) {
				c.Fail("reserialise", "Input.Bytes", "input %d: Bytes(false) differs from the reference encoding (panic=%q): %s", i, p, firstDiff(got, want))
				return
			}
			if i >= 3 {
				break
			}
		}
		for i := range m.Outs {
			one := &models.RTx{Outs: m.Outs[i : i+1]}
			b, _ := one.Encode(false, nil)
			want := b[6 : len(b)-4]
			var got []byte
			if p := catch(func() { got = tx.Outputs[i].Bytes() }); p != "" || !sameBytes(got, want) {
				c.Fail("reserialise", "Output.Bytes", "output %d: Bytes() differs from the reference encoding (panic=%q): %s", i, p, firstDiff(got, want))
				return
			}
			if i >= 3 {
				break
			}
		}
	}
	// an API-built tx knows its previous outputs, so compare as "extended"
	mm := m
	if !extended {
		mm = m // PrevSats / PrevScript are zero in the model for standard shapes
	}
	if !reserialiseCheck(c, tx, mm, true, "api-built") {
		return
	}
	var cl *bt.Tx
	if p := catch(func() { cl = tx.Clone() }); p != "" {
		c.Fail("panic", "Tx.Clone", "Clone panicked: %s", p)
		return
	}
	if d := cmpTx(cl, mm, true); d != "" {
		c.Fail("clone", "Tx.Clone", "clone differs: %s", d)
		return
	}
	if !reserialiseCheck(c, cl, mm, true, "clone of api-built") {
		return
	}
	var s string
	if p := catch(func() { s = tx.String() }); p != "" {
		c.Fail("panic", "Tx.String", "String panicked: %s", p)
		return
	}
	std, _ := m.Encode(false, nil)
	if s != hex.EncodeToString(std) {
		c.Fail("reserialise", "Tx.String", "String() is not the hex of the standard serialisation")
		return
	}
	// getter / serialiser coherence after the outpoint of an already-serialised input is changed: whatever the
	// getters report is what must be serialised (routes: PreviousTxIDAdd with a new id, refilling the same *Input
	// from its JSON form, editing the bytes PreviousTxID() hands out)
	if len(tx.Inputs) == 0 {
		return
	}
	in := tx.Inputs[0]
	route := len(m.Ins[0].Script) % 3
	switch route {
	case 0:
		nid := make([]byte, 32)
		nid[3], nid[30] = 0x77, byte(len(m.Outs))
		if err := in.PreviousTxIDAdd(nid); err != nil {
			return
		}
	case 1:
		js := fmt.Sprintf(`{"unlockingScript":"%x","txid":"%064x","vout":%d,"sequence":%d}`, m.Ins[0].Script, 0x1234567+len(m.Outs), m.Ins[0].Vout, m.Ins[0].Seq)
		if err := json.Unmarshal([]byte(js), in); err != nil {
			return
		}
	default:
		id := in.PreviousTxID()
		for i := range id {
			id[i] ^= 0x3c
		}
	}
	c.Count("probe.outpoint_changed_after_serialisation", 1)
	now := &models.RTx{Version: tx.Version, Lock: tx.LockTime}
	for _, ti := range tx.Inputs {
		var ri models.RIn
		id := ti.PreviousTxID()
		for j := 0; j < 32 && j < len(id); j++ {
			ri.TxIDWire[j] = id[31-j]
		}
		ri.Vout, ri.Seq, ri.Script = ti.PreviousTxOutIndex, ti.SequenceNumber, scriptBytes(ti.UnlockingScript)
		now.Ins = append(now.Ins, ri)
	}
	for _, o := range tx.Outputs {
		now.Outs = append(now.Outs, models.ROut{Sats: o.Satoshis, Script: scriptBytes(o.LockingScript)})
	}
	want, _ := now.Encode(false, nil)
	var got []byte
	if p := catch(func() { got = tx.Bytes() }); p != "" || !sameBytes(got, want) {
		c.Fail("reserialise", "Tx.Bytes", "after input 0's outpoint was changed (route %d) Bytes() does not serialise what the getters report (panic=%q): %s", route, p, firstDiff(got, want))
		return
	}
	if id := tx.TxID(); id != hex.EncodeToString(now.TxIDDisplay()) {
		c.Fail("txid", "Tx.TxID", "after input 0's outpoint was changed (route %d) TxID() is %s, want %x", route, id, now.TxIDDisplay())
	}
}

// fieldDecoders: Input.ReadFrom / ReadFromExtended / Output.ReadFrom / VarInt on their own sub-streams.
func (w *c01World) fieldDecoders(c *kernel.RunCtx, m *models.RTx, extended bool) {
	one := &models.RTx{}
	if len(m.Ins) > 0 {
		one.Ins = m.Ins[:1]
		b, _ := one.Encode(extended, nil)
		// strip version(4) [+marker 6] + count(1) ... locktime(4)+outcount(1)
		start := 5
		if extended {
			start = 11
		}
		body := append([]byte(nil), b[start:len(b)-5]...)
		tail := 2
		if (c.RunIdx/16)%2 == 1 {
			tail = 0 // the unit ends the stream: its last bytes may arrive together with io.EOF
		}
		body = append(body, []byte{0xAA, 0xBB}[:tail]...) // something after it on the same reader
		plan := kernel.DrawPlan(c.Tape)
		st := kernel.NewStream(body, plan)
		in := &bt.Input{}
		var n int64
		var err error
		c.Exec()
		p := catch(func() {
			if extended {
				n, err = in.ReadFromExtended(st)
			} else {
				n, err = in.ReadFrom(st)
			}
		})
		if p != "" || err != nil || int(n) != len(body)-tail || st.Supplied != len(body)-tail {
			c.Fail("consumed", "Input.ReadFrom", "Input.ReadFrom(extended=%v) panic=%q err=%v n=%d supplied=%d want %d (plan %s, %d bytes follow on the reader)", extended, p, err, n, st.Supplied, len(body)-tail, plan, tail)
			return
		}
		tmp := &bt.Tx{Inputs: []*bt.Input{in}}
		if d := cmpTx(tmp, &models.RTx{Ins: m.Ins[:1]}, extended); d != "" {
			c.Fail("fields", "Input.ReadFrom", "%s", d)
			return
		}
	}
	if len(m.Outs) > 0 {
		one := &models.RTx{Outs: m.Outs[:1]}
		b, _ := one.Encode(false, nil)
		body := append([]byte(nil), b[6:len(b)-4]...)
		tail := 1
		if (c.RunIdx/16)%2 == 1 {
			tail = 0
		}
		body = append(body, []byte{0xCC}[:tail]...)
		plan := kernel.DrawPlan(c.Tape)
		st := kernel.NewStream(body, plan)
		o := &bt.Output{}
		var n int64
		var err error
		c.Exec()
		p := catch(func() { n, err = o.ReadFrom(st) })
		if p != "" || err != nil || int(n) != len(body)-tail || st.Supplied != len(body)-tail {
			c.Fail("consumed", "Output.ReadFrom", "Output.ReadFrom panic=%q err=%v n=%d supplied=%d want %d (plan %s, %d bytes follow on the reader)", p, err, n, st.Supplied, len(body)-tail, plan, tail)
			return
		}
		if o.Satoshis != m.Outs[0].Sats || !sameBytes(scriptBytes(o.LockingScript), m.Outs[0].Script) {
			c.Fail("fields", "Output.ReadFrom", "output decoded differently")
			return
		}
		var ob []byte
		if p := catch(func() { ob = o.Bytes() }); p != "" || !sameBytes(ob, body[:len(body)-tail]) {
			c.Fail("reserialise", "Output.Bytes", "Output.Bytes differs from the reference encoding (panic=%q)", p)
		}
	}
	// VarInt boundary agreement: Bytes / Length / ReadFrom
	c.Begin("varint")
	v := []uint64{0, 1, 252, 253, 254, 65535, 65536, 65537, 0xffffffff, 0x100000000, ^uint64(0)}[c.Choose(11)]
	if c.Bool(1, 3) {
		v = c.U64n(0) >> uint(c.Choose(64))
	}
	plan := kernel.DrawPlan(c.Tape)
	c.End()
	ref := models.VarInt(v)
	c.Exec()
	vb := bt.VarInt(v).Bytes()
	if !sameBytes(vb, ref) || bt.VarInt(v).Length() != len(ref) {
		c.Fail("varint", "VarInt.Bytes", "VarInt(%d): Bytes=%x Length=%d, reference %x", v, vb, bt.VarInt(v).Length(), ref)
		return
	}
	scribbleReturned(vb)
	for _, d := range []uint64{0, 1, 2, 5} {
		if w := v + d; w >= v {
			if again := bt.VarInt(w).Bytes(); !sameBytes(again, models.VarInt(w)) {
				c.Fail("aliasing", "VarInt.Bytes", "after the caller overwrote / appended to the slice returned by VarInt(%d).Bytes(), VarInt(%d).Bytes() = %x, reference %x", v, w, again, models.VarInt(w))
				return
			}
		}
	}
	// the slice door: same value and width as the reference, whatever follows the prefix
	{
		buf := append(append([]byte(nil), ref...), 0x77, 0xfd, 0xff, 0xff, 0xff, 0xff, 0xff, 0xff, 0xff)
		var sv bt.VarInt
		var sn int
		if p := catch(func() { sv, sn = bt.NewVarIntFromBytes(buf) }); p != "" || uint64(sv) != v || sn != len(ref) {
			c.Fail("varint", "NewVarIntFromBytes", "NewVarIntFromBytes(%x…) = (%d, %d) panic=%q, reference (%d, %d)", ref, uint64(sv), sn, p, v, len(ref))
			return
		}
	}
	st := kernel.NewStream(append(append([]byte(nil), ref...), 0x77), plan)
	var got bt.VarInt
	var n int64
	var err error
	if p := catch(func() { n, err = got.ReadFrom(st) }); p != "" || err != nil || uint64(got) != v || int(n) != len(ref) || st.Supplied != len(ref) {
		c.Fail("varint", "VarInt.ReadFrom", "VarInt.ReadFrom of %x: panic=%q err=%v value=%d n=%d supplied=%d (plan %s)", ref, p, err, uint64(got), n, st.Supplied, plan)
	}
}
