package worlds

import (
	"bytes"
	"context"
	"encoding/json"
	"errors"
	"fmt"
	"strings"

	"github.com/libsv/go-bt/v2"

	"verif/sim/kernel"
	"verif/sim/models"
)

// C12: Fund (real) against a scripted supplier (stub) — the one retry loop in
// go-bt and the external party it talks to through a callback + context.

type c12World struct{}

func init() { kernel.Register(&c12World{}) }

func (*c12World) ID() string   { return "C12" }
func (*c12World) Name() string { return "c12" }
func (*c12World) Runs(tier string) int {
	if tier == "thorough" {
		return 2000000
	}
	return 24000
}
func (*c12World) Info() kernel.WorldInfo {
	return kernel.WorldInfo{
		Level: "fault_enumeration",
		Rule: "one run = one base scenario (starting tx, fee quote, scripted supplier history of K responses) drawn from the choice tape, " +
			"then the complete enumeration of fault positions over it: no fault, supplier exhaustion at every call index 0..K, supplier error " +
			"(unrelated error / context cancellation) at every call index 0..K; each execution drives the real Tx.Fund and is checked in lock-step " +
			"against a reference funding model. distinct = distinct (response-kind sequence, fault kind+position, outcome class, #calls) histories; " +
			"a history is non-trivial when the supplier was called at least once.",
		Assumptions: []string{
			"'estimated fee' = floor(std bytes x std rate) + floor(data bytes x data rate), where the size is computed by the reference codec with a 107-byte unlocking script for every not-yet-signed P2PKH input (the documented estimate) and data bytes are the scripts of OP_RETURN / OP_FALSE OP_RETURN outputs",
			"fee quotes have positive byte denominators (as the property states)",
			"nothing is asserted about the transaction's inputs on error paths (the statement only constrains outputs there)",
		},
		Real:        []string{"bt.Tx.Fund", "bt.Tx.FromUTXOs", "bt.Tx.estimateDeficit", "bt.Tx.EstimateFeesPaid / estimatedFinalTx / SizeWithTypes / feesPaid", "bt.FeeQuote"},
		Stub:        []string{"UTXO supplier (UTXOGetterFunc) scripted by the tape", "context.Context (cancelled by the supplier stub at a chosen call)"},
		SimTimeNote: "Fund reads no clock; simulated time is not applicable to this world.",
	}
}

type c12Resp struct {
	kind int // see respNames
	n    int // batch size
	pos  int // position of the bad utxo
	aux  uint64
}

var respNames = []string{"ample", "exact", "deficit-1", "1sat", "barely", "empty", "noutxo", "noutxo-wrapped", "error", "bad-txid", "bad-script", "nil-script", "cancel", "noutxo+batch", "error+batch", "cancel+batch"}

type c12Scenario struct {
	stdSat, stdBytes, dataSat, dataBytes int
	priorVals                            []uint64
	priorForm                            []int // 0 nil unlocking script, 1 empty non-nil, 2 already signed
	transit                              bool  // starting tx went through an extended-format round trip
	lockTime, version                    uint32
	refund                               bool // Fund is called a second time on the same object after an in-place edit
	editKind, editIdx                    int
	resps2                               []c12Resp
	huge                                 bool // quota: the input count crosses 65535 -> 65536 during Fund
	requote                              int  // 0 no, 1 AddQuote, 2 UnmarshalJSON between the two Fund calls
	veryPatient                          bool // thousands of empty answers: executed once, without fault positions
	inscribedUTXOs                       bool // two thirds of the supplier's coins are P2PKH outputs carrying an inscription envelope
	deadCtx                              bool // Fund is handed a context that is already cancelled
	whale                                int  // 0 no; 1 an output above 2^63 sat; 2 a prior input above 2^63 sat
	sharedFee                            bool // one *bt.Fee object registered under both fee types (a miner with a single rate)
	stdSat2, stdBytes2                   int
	dataSat2, dataBytes2                 int
	outs                                 []c12Out
	resps                                []c12Resp
	seedBytes                            []byte
}

type c12Out struct {
	sats   uint64
	script []byte
}

func (s *c12Scenario) build() (*bt.Tx, *bt.FeeQuote) {
	tx := &bt.Tx{Version: s.version, LockTime: s.lockTime}
	for i, v := range s.priorVals {
		in := &bt.Input{PreviousTxOutIndex: uint32(i), PreviousTxSatoshis: v, PreviousTxScript: scriptPtr(p2pkh(s.h20(100 + i))), SequenceNumber: 0xfffffffe}
		_ = in.PreviousTxIDAdd(s.txid(100 + i))
		switch s.priorForm[i] {
		case 1:
			in.UnlockingScript = scriptPtr(nil)
		case 2, 3, 4:
			// already signed: 107-, 106- and 105-byte unlocking scripts (72/71/70-byte signatures)
			n := 74 - s.priorForm[i]
			us := append([]byte{byte(n)}, make([]byte, n)...)
			us = append(append(us, 0x21), make([]byte, 33)...)
			in.UnlockingScript = scriptPtr(us)
		case 5:
			// signed, with an extra data push in front: the script length needs a 3-byte prefix (253+ bytes)
			us := append([]byte{0x4c, 150}, make([]byte, 150)...)
			us = append(append(us, 0x48), make([]byte, 72)...)
			us = append(append(us, 0x21), make([]byte, 33)...)
			in.UnlockingScript = scriptPtr(us)
		}
		tx.Inputs = append(tx.Inputs, in)
	}
	for _, o := range s.outs {
		tx.Outputs = append(tx.Outputs, &bt.Output{Satoshis: o.sats, LockingScript: scriptPtr(o.script)})
	}
	if s.transit {
		// the draft arrived over the wire in extended format (previous outputs survive, scripts become non-nil)
		if rt, err := bt.NewTxFromBytes(tx.ExtendedBytes()); err == nil {
			tx = rt
		}
	}
	fq := bt.NewFeeQuote()
	// the relay fee is a different, unrelated rate: funding is priced with the mining fee only
	relay := bt.FeeUnit{Satoshis: 1 + int(s.seedBytes[0])*7, Bytes: 1 + int(s.seedBytes[1])}
	if s.sharedFee {
		one := &bt.Fee{FeeType: bt.FeeTypeStandard, MiningFee: bt.FeeUnit{Satoshis: s.stdSat, Bytes: s.stdBytes}, RelayFee: relay}
		fq.AddQuote(bt.FeeTypeStandard, one).AddQuote(bt.FeeTypeData, one)
		return tx, fq
	}
	fq.AddQuote(bt.FeeTypeStandard, &bt.Fee{FeeType: bt.FeeTypeStandard, MiningFee: bt.FeeUnit{Satoshis: s.stdSat, Bytes: s.stdBytes}, RelayFee: relay})
	fq.AddQuote(bt.FeeTypeData, &bt.Fee{FeeType: bt.FeeTypeData, MiningFee: bt.FeeUnit{Satoshis: s.dataSat, Bytes: s.dataBytes}, RelayFee: relay})
	return tx, fq
}

func (s *c12Scenario) h20(i int) []byte {
	b := make([]byte, 20)
	for j := range b {
		b[j] = s.seedBytes[(i*7+j)%len(s.seedBytes)] ^ byte(i)
	}
	return b
}

func (s *c12Scenario) txid(i int) []byte {
	b := make([]byte, 32)
	for j := range b {
		b[j] = s.seedBytes[(i*11+j*3)%len(s.seedBytes)] ^ byte(i*5+j)
	}
	return b
}

func genC12(c *kernel.RunCtx) *c12Scenario {
	s := &c12Scenario{}
	c.Begin("quote")
	s.seedBytes = c.Bytes(32)
	switch c.Pick(3, 2, 2, 2, 2) {
	case 4:
		// a single rate with a small denominator (per-class rounding matters), the same object under both types
		s.stdSat, s.stdBytes = c.Range(1, 7), c.Range(2, 9)
		s.dataSat, s.dataBytes = s.stdSat, s.stdBytes
		s.sharedFee = true
	case 0:
		s.stdSat, s.stdBytes, s.dataSat, s.dataBytes = 5, 100, 5, 100
	case 1:
		s.stdSat, s.stdBytes, s.dataSat, s.dataBytes = c.Range(0, 2000), c.Range(1, 1000), c.Range(0, 2000), c.Range(1, 1000)
		if c.Bool(1, 6) {
			s.stdSat = 0 // free standard bytes
		}
		if c.Bool(1, 6) {
			s.dataSat = 0
		}
	case 2: // tiny rates: adding an input may not raise the fee at all
		s.stdSat, s.stdBytes, s.dataSat, s.dataBytes = c.Range(0, 3), c.Range(300, 1000), c.Range(0, 3), c.Range(300, 1000)
	default: // above 1 sat/byte
		s.stdSat, s.stdBytes, s.dataSat, s.dataBytes = c.Range(500, 2000), c.Range(1, 20), c.Range(1, 2000), c.Range(1, 20)
	}
	c.End()
	c.Begin("tx")
	np := c.Pick(5, 3, 2, 1)
	many := c.Bool(1, 25)
	if many {
		// just below the 252/253 input-count varint boundary, so that funding crosses it
		np = c.Range(247, 253)
	}
	for i := 0; i < np; i++ {
		c.Begin("prior")
		v := uint64(c.Pick(1, 3) * c.Range(0, 100000))
		if many {
			v %= 50
		}
		s.priorVals = append(s.priorVals, v)
		s.priorForm = append(s.priorForm, c.Pick(4, 2, 2, 2, 1, 1))
		c.End()
	}
	s.transit = c.Bool(1, 5)
	s.version = 1
	if c.Bool(1, 3) {
		s.version, s.lockTime = []uint32{2, 0xffffffff}[c.Choose(2)], uint32(1+c.Choose(700000))
	}
	if c.RunIdx%1499 == 11 && !many {
		// quota: 65 53x prior inputs, so that funding crosses the 3 -> 5 byte input-count boundary
		s.huge = true
		s.transit = false
		for len(s.priorVals) < 65531+c.Choose(4) {
			s.priorVals = append(s.priorVals, 1)
			s.priorForm = append(s.priorForm, 0)
		}
		c.Count("probe.input_count_near_65536", 1)
	}
	no := c.Range(0, 6)
	if c.Bool(1, 40) {
		no = []int{252, 253}[c.Choose(2)]
	}
	for i := 0; i < no; i++ {
		c.Begin("out")
		var o c12Out
		switch c.Pick(6, 2, 2, 1) {
		case 3:
			// a P2PKH inscription with an OP_RETURN trailer: an ordinary (standard-rate) output although data follows an
			// OP_RETURN somewhere inside it
			sc := append(p2pkh(s.h20(i)), 0x00, 0x63, 0x03, 0x6f, 0x72, 0x64, 0x51)
			sc = append(sc, pushOf([]byte("text/plain"))...)
			sc = append(sc, 0x00)
			sc = append(sc, pushOf(c.Bytes(1+c.Choose(300)))...)
			sc = append(sc, 0x68, 0x6a)
			sc = append(sc, pushOf(c.Bytes(1+c.Choose(400)))...)
			o.script = sc
			o.sats = 1
			c.Count("probe.inscription_output_with_opreturn_trailer", 1)
		case 0:
			o.script = p2pkh(s.h20(i))
			o.sats = uint64(c.Pick(1, 2, 4)) * uint64(c.Range(0, 50000))
		case 1:
			o.script = append([]byte{0x6a}, c.Bytes(boundaryLen(c, 2000))...)
		default:
			o.script = append([]byte{0x00, 0x6a}, c.Bytes(boundaryLen(c, 2000))...)
		}
		s.outs = append(s.outs, o)
		c.End()
	}
	c.End()
	c.Begin("supplier")
	k := c.Range(0, 6)
	for i := 0; i < k; i++ {
		c.Begin("resp")
		r := c12Resp{}
		//               ample exact d-1 1sat barely empty noutxo wrapped error badtxid badscript nilscript cancel
		r.kind = c.Pick(5, 8, 6, 5, 8, 4, 1, 1, 1, 1, 1, 1, 1, 1, 1, 1)
		r.n = 1 + c.Pick(5, 3, 2, 1, 1)
		if c.Bool(1, 50) {
			r.n = c.Range(250, 300) // one huge batch: crosses the input-count varint boundary at once
		}
		r.pos = c.Choose(r.n)
		r.aux = c.U64n(1 << 20)
		s.resps = append(s.resps, r)
		c.End()
	}
	s.deadCtx = c.Bool(1, 30)
	if c.Bool(1, 40) && !many && !s.huge {
		// amounts above 2^63 satoshis (legal uint64 values; nothing here is a length): a single output, or a single
		// prior input, so that the gap between the two sides does not fit a signed 64-bit number
		s.whale = 1 + c.Choose(2)
		big := []uint64{1<<63 - 1, 1 << 63, 1<<63 + 12345, 1<<64 - 1<<33}[c.Choose(4)]
		if s.whale == 1 {
			s.outs = append(s.outs, c12Out{sats: big, script: p2pkh(s.h20(900))})
		} else {
			s.priorVals = append(s.priorVals, big)
			s.priorForm = append(s.priorForm, 0)
		}
		c.Count("probe.amount_above_2^63", 1)
	}
	if c.Bool(1, 40) && !many {
		// a patient caller: the supplier has nothing (or only dust) for dozens of rounds in a row, then delivers
		c.Begin("patient")
		var wait []c12Resp
		for i, n := 0, c.Range(31, 70); i < n; i++ {
			wait = append(wait, c12Resp{kind: []int{5, 5, 5, 3}[c.Choose(4)], n: 1})
		}
		s.resps = append(wait, s.resps...)
		s.resps = append(s.resps, c12Resp{kind: 0, n: 1})
		c.End()
		c.Count("probe.dozens_of_empty_batches_then_funds", 1)
	}
	c.End()
	c.Begin("second-fund")
	s.refund = c.Bool(1, 3) && !s.huge
	s.editKind, s.editIdx = c.Choose(5), c.Choose(1000)
	s.requote = c.Pick(4, 2, 2, 1)
	s.stdSat2, s.stdBytes2, s.dataSat2, s.dataBytes2 = c.Range(0, 2000), c.Range(1, 1000), c.Range(0, 2000), c.Range(1, 1000)
	for i, n := 0, 1+c.Choose(3); i < n; i++ {
		s.resps2 = append(s.resps2, c12Resp{kind: c.Pick(4, 4, 2, 1, 3), n: 1 + c.Choose(3), aux: c.U64n(1 << 16)})
	}
	c.End()
	s.inscribedUTXOs = c.RunIdx%6 == 4
	if c.RunIdx%1499 == 13 && !s.huge {
		// quota: thousands of empty answers in a row before the supplier delivers (one execution, no fault positions)
		s.veryPatient = true
		var wait []c12Resp
		for i, n := 0, 4097+c.Choose(1500); i < n; i++ {
			wait = append(wait, c12Resp{kind: 5, n: 1})
		}
		s.resps = append(wait, c12Resp{kind: 0, n: 1})
		s.refund = false
		c.Count("probe.thousands_of_empty_batches_then_funds", 1)
	}
	if s.huge {
		// a couple of small batches, tightly funded, to walk across the boundary
		s.resps = []c12Resp{{kind: 1, n: 3}, {kind: 4, n: 2, aux: 1}, {kind: 1, n: 2}, {kind: 0, n: 1}}
	}
	return s
}

var errC12Injected = errors.New("verif: injected supplier failure")

type ctxKey struct{}

// supplier is the scripted counter-party plus the lock-step reference model.
type c12Supplier struct {
	ctxDead bool // the context handed to Fund is done (before the call, or cancelled by the supplier) — nobody reported exhaustion
	c       *kernel.RunCtx
	s       *c12Scenario
	fq      *bt.FeeQuote
	resps   []c12Resp
	model   *bt.Tx // the model's private copy
	token   *int
	cancel  context.CancelFunc
	calls   int
	kinds   []string
	expect  string // "", "insufficient", "error", "cancel", "invalid"
	after   bool   // a terminal response was already given
	problem string
	utxoN   int
	maxCall int
	rates   [4]int // std sat/bytes, data sat/bytes in force for this Fund call
}

// modelDeficit is the reference definition: max(0, outputs + estimated fee - inputs).
func (p *c12Supplier) modelDeficit() (uint64, error) {
	// Independent estimate: the size the transaction will have once every not-yet-signed P2PKH input carries a
	// 107-byte unlocking script (the documented estimate), computed with the reference codec; data bytes are the
	// scripts of outputs starting OP_RETURN or OP_FALSE OP_RETURN; fee = floor(std bytes x rate) + floor(data x rate).
	ref := &models.RTx{Version: p.model.Version, Lock: p.model.LockTime}
	for i, in := range p.model.Inputs {
		ps := scriptBytes(in.PreviousTxScript)
		if in.PreviousTxScript == nil {
			return 0, fmt.Errorf("input %d has no previous script: estimate undefined", i)
		}
		isP2PKH := len(ps) >= 25 && ps[0] == 0x76 && ps[1] == 0xa9 && ps[2] == 0x14 && ps[23] == 0x88 && ps[24] == 0xac
		// a P2PKH output carrying an ordinals inscription envelope is spent like a P2PKH output (same unlocking script)
		isInscribed := isP2PKH && len(ps) > 32 && bytes.Equal(ps[25:31], []byte{0x00, 0x63, 0x03, 0x6f, 0x72, 0x64}) && ps[len(ps)-1] == 0x68
		if !(isP2PKH && (len(ps) == 25 || isInscribed)) {
			return 0, fmt.Errorf("input %d spends a non-P2PKH script: estimate undefined", i)
		}
		us := scriptBytes(in.UnlockingScript)
		if len(us) == 0 {
			us = make([]byte, 107)
		}
		ref.Ins = append(ref.Ins, models.RIn{Script: us})
	}
	var data uint64
	for _, o := range p.model.Outputs {
		sc := scriptBytes(o.LockingScript)
		ref.Outs = append(ref.Outs, models.ROut{Script: sc})
		if (len(sc) > 0 && sc[0] == 0x6a) || (len(sc) > 1 && sc[0] == 0x00 && sc[1] == 0x6a) {
			data += uint64(len(sc))
		}
	}
	enc, _ := ref.Encode(false, nil)
	total := uint64(len(enc))
	r := p.rates
	fees := struct{ TotalFeePaid uint64 }{(total-data)*uint64(r[0])/uint64(r[1]) + data*uint64(r[2])/uint64(r[3])}
	var in, out uint64
	for _, i := range p.model.Inputs {
		in += i.PreviousTxSatoshis
	}
	for _, o := range p.model.Outputs {
		out += o.Satoshis
	}
	need := out + fees.TotalFeePaid
	if in >= need {
		return 0, nil
	}
	return need - in, nil
}

func (p *c12Supplier) note(format string, a ...interface{}) {
	if p.problem == "" {
		p.problem = fmt.Sprintf(format, a...)
	}
}

func (p *c12Supplier) mkUTXO(val uint64, kind int) *bt.UTXO {
	p.utxoN++
	u := &bt.UTXO{TxID: p.s.txid(p.utxoN), Vout: uint32(p.utxoN*3 + 1), Satoshis: val, SequenceNumber: uint32(p.utxoN)}
	switch kind {
	case 9:
		u.TxID = u.TxID[:31]
		u.LockingScript = scriptPtr(p2pkh(p.s.h20(p.utxoN)))
	case 10:
		u.LockingScript = scriptPtr([]byte{0x51})
	case 11:
		u.LockingScript = nil
	default:
		u.LockingScript = scriptPtr(p2pkh(p.s.h20(p.utxoN)))
		if p.s.inscribedUTXOs && p.utxoN%3 != 1 {
			// the supplier's coins carry ordinals inscriptions (P2PKH + envelope): spent exactly like P2PKH outputs
			sc := append(p2pkh(p.s.h20(p.utxoN)), 0x00, 0x63, 0x03, 0x6f, 0x72, 0x64, 0x51)
			sc = append(sc, pushOf([]byte("text/plain"))...)
			sc = append(sc, 0x00)
			sc = append(sc, pushOf(bytes.Repeat([]byte{byte(p.utxoN)}, 1+p.utxoN*37%600))...)
			sc = append(sc, 0x68)
			u.LockingScript = scriptPtr(sc)
		}
	}
	return u
}

func (p *c12Supplier) next(ctx context.Context, deficit uint64) ([]*bt.UTXO, error) {
	c := p.c
	idx := p.calls
	p.calls++
	if p.calls > p.maxCall {
		panic("verif: supplier call budget exceeded")
	}
	if p.after {
		p.note("call #%d made after the supplier had already reported %s", idx, p.expect)
	}
	if tok, _ := ctx.Value(ctxKey{}).(*int); tok != p.token {
		p.note("call #%d did not receive the caller's context", idx)
	}
	md, merr := p.modelDeficit()
	if merr != nil {
		p.note("call #%d made although the estimate is undefined (%v)", idx, merr)
	} else if md == 0 {
		p.note("call #%d made although no deficit remains (inputs already cover outputs+estimated fee); was passed %d", idx, deficit)
	} else if md != deficit {
		p.note("call #%d was given deficit %d, current deficit is %d", idx, deficit, md)
	}
	r := c12Resp{kind: 6}
	if idx < len(p.resps) {
		r = p.resps[idx]
	}
	p.kinds = append(p.kinds, respNames[r.kind])
	c.Count("fault.supplier."+respNames[r.kind], 1)
	c.Logf("supplier call #%d deficit=%d model=%d -> %s n=%d", idx, deficit, md, respNames[r.kind], r.n)
	var total uint64
	switch r.kind {
	case 0:
		total = md + 1000 + r.aux
	case 1:
		total = md
	case 2:
		if md > 0 {
			total = md - 1
		}
	case 3:
		total = 1
	case 4:
		total = md + r.aux%40
	case 5:
		return nil, nil
	case 6:
		p.expect, p.after = "insufficient", true
		return nil, bt.ErrNoUTXO
	case 7:
		p.expect, p.after = "insufficient", true
		return nil, fmt.Errorf("wallet %d drained: %w", idx, bt.ErrNoUTXO)
	case 8:
		p.expect, p.after = "error", true
		return nil, fmt.Errorf("rpc call %d: %w", idx, errC12Injected)
	case 12:
		p.cancel()
		p.expect, p.after = "cancel", true
		return nil, ctx.Err()
	case 13:
		// a supplier that hands over its last UTXOs together with the exhaustion signal: exhaustion was
		// reported while a deficit remained, so the outcome is insufficient funds whatever Fund does with them
		p.expect, p.after = "insufficient", true
		return []*bt.UTXO{p.mkUTXO(md+5000, 0)}, bt.ErrNoUTXO
	case 14:
		p.expect, p.after = "error", true
		return []*bt.UTXO{p.mkUTXO(md+5000, 0)}, fmt.Errorf("rpc call %d: %w", idx, errC12Injected)
	case 15:
		// the caller's context dies while the supplier is at work; the supplier does not care and delivers a small batch
		p.cancel()
		p.ctxDead = true
		total = 1 + r.aux%50
	default:
		total = md + r.aux%1000
	}
	n := r.n
	var batch []*bt.UTXO
	left := total
	for j := 0; j < n; j++ {
		v := left
		if j < n-1 {
			v = left / uint64(n-j)
		}
		left -= v
		kind := 0
		if r.kind >= 9 && r.kind <= 11 && j == r.pos {
			kind = r.kind
		}
		batch = append(batch, p.mkUTXO(v, kind))
	}
	if len(batch) >= 2 && r.aux%7 == 3 && r.kind < 9 {
		// the supplier hands over the very same *UTXO object twice in one batch: every returned UTXO becomes an
		// input, in order (whether that makes a sensible transaction is not Fund's business)
		batch[len(batch)-1] = batch[0]
		c.Count("probe.same_utxo_object_twice_in_batch", 1)
	}
	// apply to the model: the first bad-txid UTXO stops FromUTXOs
	for _, u := range batch {
		if len(u.TxID) != 32 {
			p.expect, p.after = "invalid", true
			break
		}
		in := &bt.Input{PreviousTxOutIndex: u.Vout, PreviousTxSatoshis: u.Satoshis, SequenceNumber: 0xffffffff}
		if u.LockingScript != nil {
			in.PreviousTxScript = scriptPtr(*u.LockingScript)
		}
		_ = in.PreviousTxIDAdd(append([]byte(nil), u.TxID...))
		p.model.Inputs = append(p.model.Inputs, in)
	}
	if p.expect == "" {
		if _, err := p.modelDeficit(); err != nil {
			p.expect, p.after = "estimate-error", true
		}
	}
	return batch, nil
}

func (w *c12World) Run(c *kernel.RunCtx) {
	s := genC12(c)
	k := len(s.resps)
	if s.huge || s.veryPatient {
		w.one(c, s, s.resps, "none") // one execution only: each estimate serialises ~10 MB / thousands of rounds
		return
	}
	// fault positions: 0 = none; 1..k+1 = exhaustion at call i; k+2..2k+2 = error at call i; then cancellation at call i
	c.Enumerate("fault", 1+3*(k+1), func(f int) {
		resps := append([]c12Resp(nil), s.resps...)
		fname := "none"
		if f >= 1 {
			i := (f - 1) % (k + 1)
			kind := []int{6, 8, 12}[(f-1)/(k+1)]
			fname = fmt.Sprintf("%s@%d", respNames[kind], i)
			resps = append(resps[:i:i], c12Resp{kind: kind, n: 1})
			if kind == 6 && i%2 == 1 {
				resps[i].kind = 7
			}
		}
		w.one(c, s, resps, fname)
	})
}

func (w *c12World) one(c *kernel.RunCtx, s *c12Scenario, resps []c12Resp, fname string) {
	tx, fq := s.build()
	model, _ := s.build()
	rates := [4]int{s.stdSat, s.stdBytes, s.dataSat, s.dataBytes}
	w.fundPhase(c, s, tx, model, fq, resps, fname, rates)
	if c.Failed() || !s.refund {
		return
	}
	// second phase on the SAME objects: an in-place edit that keeps every count, then Fund again
	c.Count("probe.refund_after_inplace_edit", 1)
	// What a FAILED Fund leaves in the input list is not specified (a batch with an unusable UTXO may be added up
	// to that UTXO or not at all), so the model's inputs are taken over from the transaction as it now is; after a
	// successful Fund they have just been checked to be equal anyway.
	model.Inputs = nil
	for _, in := range tx.Inputs {
		cp := &bt.Input{PreviousTxOutIndex: in.PreviousTxOutIndex, PreviousTxSatoshis: in.PreviousTxSatoshis, SequenceNumber: in.SequenceNumber}
		if in.PreviousTxScript != nil {
			cp.PreviousTxScript = scriptPtr(*in.PreviousTxScript)
		}
		if in.UnlockingScript != nil {
			cp.UnlockingScript = scriptPtr(*in.UnlockingScript)
		}
		_ = cp.PreviousTxIDAdd(append([]byte(nil), in.PreviousTxID()...))
		model.Inputs = append(model.Inputs, cp)
	}
	if s.requote == 3 {
		// the quote is saved and restored into itself (same rates): nothing may change
		if b, err := fq.MarshalJSON(); err == nil {
			if err := fq.UnmarshalJSON(b); err != nil {
				panic("harness: the quote's own document was rejected: " + err.Error())
			}
			c.Count("probe.quote_round_tripped_into_itself", 1)
		}
	} else if s.requote > 0 {
		// the long-lived quote receives new rates between the two calls, by one of its update routes
		rates = [4]int{s.stdSat2, s.stdBytes2, s.dataSat2, s.dataBytes2}
		std := &bt.Fee{FeeType: bt.FeeTypeStandard, MiningFee: bt.FeeUnit{Satoshis: rates[0], Bytes: rates[1]}, RelayFee: bt.FeeUnit{Satoshis: rates[0], Bytes: rates[1]}}
		dat := &bt.Fee{FeeType: bt.FeeTypeData, MiningFee: bt.FeeUnit{Satoshis: rates[2], Bytes: rates[3]}, RelayFee: bt.FeeUnit{Satoshis: rates[2], Bytes: rates[3]}}
		switch s.requote {
		case 1:
			fq.AddQuote(bt.FeeTypeStandard, std).AddQuote(bt.FeeTypeData, dat)
		default:
			doc := fmt.Sprintf(`{"standard":{"miningFee":{"satoshis":%d,"bytes":%d},"relayFee":{"satoshis":%d,"bytes":%d}},"data":{"miningFee":{"satoshis":%d,"bytes":%d},"relayFee":{"satoshis":%d,"bytes":%d}}}`,
				rates[0], rates[1], rates[0], rates[1], rates[2], rates[3], rates[2], rates[3])
			if err := fq.UnmarshalJSON([]byte(doc)); err != nil {
				panic("harness: quote document rejected: " + err.Error())
			}
		}
		c.Count("probe.quote_updated_between_funds", 1)
	}
	for _, t := range []*bt.Tx{tx, model} {
		switch {
		case s.editKind == 0 && len(t.Outputs) > 0:
			o := t.Outputs[s.editIdx%len(t.Outputs)]
			o.LockingScript = scriptPtr(append(append([]byte(nil), *o.LockingScript...), make([]byte, 40+s.editIdx%200)...))
		case s.editKind == 1 && len(t.Outputs) > 0:
			t.Outputs[s.editIdx%len(t.Outputs)].Satoshis += uint64(1000 + s.editIdx)
		case s.editKind == 2 && len(t.Inputs) > 0:
			// an input's recorded value is corrected in place (same number of inputs)
			t.Inputs[s.editIdx%len(t.Inputs)].PreviousTxSatoshis /= 2
		case s.editKind == 3 && len(t.Inputs) > 0:
			// the caller starts over with other coins: the input list is reset and re-filled with as many inputs
			n := len(t.Inputs)
			t.Inputs = nil
			for i := 0; i < n; i++ {
				_ = t.FromUTXOs(&bt.UTXO{TxID: s.txid(500 + i), Vout: uint32(i), Satoshis: uint64(7 + i), LockingScript: scriptPtr(p2pkh(s.h20(500 + i)))})
			}
		default:
			t.AddOutput(&bt.Output{Satoshis: uint64(500 + s.editIdx), LockingScript: scriptPtr(p2pkh(s.h20(77)))})
		}
	}
	w.fundPhase(c, s, tx, model, fq, s.resps2, fname+"+second-fund", rates)
}

func (w *c12World) fundPhase(c *kernel.RunCtx, s *c12Scenario, tx, model *bt.Tx, fq *bt.FeeQuote, resps []c12Resp, fname string, rates [4]int) {
	token := new(int)
	ctx, cancel := context.WithCancel(context.WithValue(context.Background(), ctxKey{}, token))
	defer cancel()
	sup := &c12Supplier{c: c, s: s, fq: fq, resps: resps, model: model, token: token, cancel: cancel, maxCall: len(resps) + 3, rates: rates}
	if s.deadCtx {
		cancel()
		sup.ctxDead = true
		c.Count("probe.context_dead_before_fund", 1)
	}
	// snapshot of outputs
	outsBefore := tx.Outputs
	ptrs := append([]*bt.Output(nil), tx.Outputs...)
	type oc struct {
		sats   uint64
		script []byte
		sp     *[]byte
	}
	var snap []oc
	for _, o := range tx.Outputs {
		snap = append(snap, oc{o.Satoshis, append([]byte(nil), *o.LockingScript...), (*[]byte)(o.LockingScript)})
	}
	if s.seedBytes[2]%4 == 1 {
		// other features of the library were used on this transaction first; whatever they cache or touch must
		// not matter to Fund
		_ = catch(func() {
			_ = tx.TxID()
			_ = tx.Size()
			_, _ = tx.EstimateSizeWithTypes()
			_, _ = tx.EstimateFeesPaid(fq)
			_, _ = tx.IsFeePaidEnough(fq)
			_ = tx.Clone()
			_, _ = json.Marshal(tx)
			_ = tx.ExtendedBytes()
		})
		c.Count("probe.other_features_used_before_fund", 1)
	}
	priorPtrs := append([]*bt.Input(nil), tx.Inputs...)
	initDef, initErr := sup.modelDeficit()
	c.Logf("fund: fault=%s prior=%d outs=%d quote=%d/%d,%d/%d initial-deficit=%d", fname, len(s.priorVals), len(s.outs), s.stdSat, s.stdBytes, s.dataSat, s.dataBytes, initDef)
	var err error
	c.Exec()
	pn := catch(func() { err = tx.Fund(ctx, fq, sup.next) })
	site := "Fund"
	outcome := "ok"
	if err != nil {
		outcome = "err"
	}
	if pn != "" {
		if strings.Contains(pn, "call budget exceeded") {
			c.Fail("liveness", site, "Fund kept calling the supplier beyond %d calls for a %d-response history (fault %s)", sup.maxCall, len(resps), fname)
		} else {
			c.Fail("panic", site, "Fund panicked: %s", pn)
		}
		return
	}
	c.Logf("fund returned err=%v after %d calls", err, sup.calls)
	if sup.calls > 0 {
		c.Distinct(fmt.Sprintf("%s|%s|%s|%d", strings.Join(sup.kinds, ","), fname, outcome, sup.calls))
	}
	if sup.calls > 0 {
		c.Count("probe.supplier_called", 1)
	}
	if sup.calls >= 3 {
		c.Count("probe.fund_called_supplier_3plus", 1)
	}
	if len(s.priorVals) < 253 && len(model.Inputs) >= 253 {
		c.Count("probe.input_count_crossed_253", 1)
	}
	if len(s.priorVals) < 65536 && len(model.Inputs) >= 65536 {
		c.Count("probe.input_count_crossed_65536", 1)
	}
	if s.transit && len(s.priorVals) > 0 {
		c.Count("probe.prior_inputs_round_tripped", 1)
	}
	if c.WantSample() && sup.calls >= 2 {
		c.Sample(map[string]interface{}{"prior_inputs": len(s.priorVals), "outputs": len(s.outs), "quote": fmt.Sprintf("std %d/%d data %d/%d", s.stdSat, s.stdBytes, s.dataSat, s.dataBytes),
			"initial_deficit": initDef, "fault": fname, "supplier_history": sup.kinds, "fund_error": fmt.Sprint(err)})
	}
	// --- oracle over the recorded history ---
	if sup.problem != "" {
		c.Fail("call-discipline", site, "%s (fault %s, history %v)", sup.problem, fname, sup.kinds)
		return
	}
	finalDef, finalErr := sup.modelDeficit()
	switch {
	case initErr != nil:
		if err == nil {
			c.Fail("result", site, "estimate undefined (%v) but Fund returned nil", initErr)
		}
	case sup.expect == "insufficient":
		c.Count("probe.exhausted", 1)
		if !errors.Is(err, bt.ErrInsufficientFunds) {
			c.Fail("result", site, "supplier reported exhaustion at call %d with deficit outstanding, Fund returned %v, want ErrInsufficientFunds", sup.calls-1, err)
		}
	case sup.expect == "error":
		c.Count("probe.supplier_error", 1)
		if !errors.Is(err, errC12Injected) {
			c.Fail("result", site, "supplier failed at call %d, Fund returned %v, want the supplier's error", sup.calls-1, err)
		}
	case sup.expect == "cancel":
		c.Count("probe.ctx_cancelled", 1)
		if !errors.Is(err, context.Canceled) {
			c.Fail("result", site, "context cancelled at call %d, Fund returned %v, want context.Canceled", sup.calls-1, err)
		}
	case sup.expect == "invalid" || sup.expect == "estimate-error":
		if err == nil {
			c.Fail("result", site, "supplier handed an unusable UTXO (%s) but Fund returned nil", sup.expect)
		}
	case sup.ctxDead && err != nil && errors.Is(err, context.Canceled):
		// the context was dead and Fund said so: stopping early with the context's error is as good as carrying on
		// (the statement only speaks about exhaustion). What it must not do is call this insufficient funds.
		c.Count("probe.dead_context_reported", 1)
	default:
		// no terminal response: the model must have reached deficit 0, or the
		// history ran out (then the supplier said ErrNoUTXO and expect is set)
		if finalErr != nil || finalDef != 0 {
			c.Fail("result", site, "Fund stopped calling the supplier while deficit %d remains (err=%v, calls=%d)", finalDef, err, sup.calls)
		} else if err != nil {
			c.Fail("result", site, "inputs cover outputs+estimated fee but Fund returned %v", err)
		} else {
			c.Count("probe.funded", 1)
			// inputs = prior ++ everything the supplier returned, in order
			if len(tx.Inputs) != len(model.Inputs) {
				c.Fail("inputs", site, "funded tx has %d inputs, want %d (prior %d + supplied)", len(tx.Inputs), len(model.Inputs), len(priorPtrs))
				return
			}
			for i, in := range tx.Inputs {
				m := model.Inputs[i]
				if i < len(priorPtrs) && in != priorPtrs[i] {
					c.Fail("inputs", site, "prior input %d was replaced", i)
					return
				}
				wantSeq := m.SequenceNumber // 0xfffffffe for the scenario's prior inputs, final for everything funded
				if !sameBytes(in.PreviousTxID(), m.PreviousTxID()) || in.PreviousTxOutIndex != m.PreviousTxOutIndex ||
					in.PreviousTxSatoshis != m.PreviousTxSatoshis || !sameBytes(scriptBytes(in.PreviousTxScript), scriptBytes(m.PreviousTxScript)) || in.SequenceNumber != wantSeq {
					c.Fail("inputs", site, "input %d differs from what the supplier returned: got %x:%d %d sat seq %x script %x, want %x:%d %d sat seq %x script %x", i,
						in.PreviousTxID(), in.PreviousTxOutIndex, in.PreviousTxSatoshis, in.SequenceNumber, scriptBytes(in.PreviousTxScript),
						m.PreviousTxID(), m.PreviousTxOutIndex, m.PreviousTxSatoshis, wantSeq, scriptBytes(m.PreviousTxScript))
					return
				}
			}
		}
	}
	if c.Failed() {
		return
	}
	// outputs untouched in every case
	bad := ""
	if len(tx.Outputs) != len(ptrs) || (len(ptrs) > 0 && &tx.Outputs[0] != &outsBefore[0]) {
		bad = fmt.Sprintf("output list changed (len %d -> %d)", len(ptrs), len(tx.Outputs))
	} else {
		for i, o := range tx.Outputs {
			if o != ptrs[i] || o.Satoshis != snap[i].sats || o.LockingScript == nil || (*[]byte)(o.LockingScript) != snap[i].sp || !sameBytes(*o.LockingScript, snap[i].script) {
				bad = fmt.Sprintf("output %d changed", i)
				break
			}
		}
	}
	if bad != "" {
		c.Fail("outputs", site, "%s during Fund (fault %s, result %v)", bad, fname, err)
	}
}
