package worlds

import (
	"crypto/sha256"
	"encoding/hex"
	"encoding/json"
	"errors"
	"fmt"
	"os"
	"path/filepath"
	"strings"
	"sync"

	"github.com/libsv/go-bk/crypto"
	"github.com/libsv/go-bt/v2"
	"github.com/libsv/go-bt/v2/bscript/interpreter"
	"github.com/libsv/go-bt/v2/bscript/interpreter/debug"
	"github.com/libsv/go-bt/v2/bscript/interpreter/errs"
	"github.com/libsv/go-bt/v2/bscript/interpreter/scriptflag"

	"verif/sim/kernel"
)

// C19: the interpreter (real) observed by a possibly hostile Debugger party.

type c19World struct{}

func init() { kernel.Register(&c19World{}) }

func (*c19World) ID() string   { return "C19" }
func (*c19World) Name() string { return "c19" }
func (*c19World) Runs(tier string) int {
	if tier == "thorough" {
		return 1000000
	}
	return 2*len(loadCorpus()) + 5000
}
func (*c19World) Info() kernel.WorldInfo {
	return kernel.WorldInfo{
		Level: "exploration",
		Rule: "one run = one program (script_tests.json corpus entry in its own era and in the other era, or a seeded program of up to 40 opcodes incl. P2SH wrappers, or a library-signed P2PKH spend) executed 6 times on fresh copies: no debugger, recording debugger, scribble-ALL debugger (every stack field of every snapshot at every callback), seeded-scribble debugger, debug.NewDebugger fan-out, fan-out + scribbler. " +
			"Oracles: identical outcome (class, code, text); lifecycle automaton over the callback history; snapshot consistency (step continuity, program counter, scripts unparse to caller bytes, push/pop deltas, data-movement step function); recorded histories identical with and without scribbling and through the fan-out. " +
			"distinct = distinct (program bytes, flags); non-trivial = at least one step executed.",
		Assumptions: []string{
			"only stack data inside snapshots is scribbled (DataStack, AltStack, ElseStack, SavedFirstStack, CondStack), as the property states; Scripts[i][j].Data and the []byte argument of push/pop callbacks are not",
			"a panic inside the engine is an outcome to compare across runs, not a C19 violation (totality is C07, not claimed)",
			"opcode semantics are modelled only for pure data-movement opcodes",
		},
		Real:        []string{"the whole interpreter (engine, thread, stack, state, opcode parser, operations)", "bscript/interpreter/debug fan-out"},
		Stub:        []string{"the debuggers (recorder, scribbler)", "the spending transaction context"},
		SimTimeNote: "the interpreter reads no clock; simulated time is not applicable to this world.",
	}
}

type corpusEntry struct {
	U string `json:"u"`
	L string `json:"l"`
	F string `json:"f"`
	E string `json:"e"`
	A int64  `json:"a"`
}

var (
	corpusOnce sync.Once
	corpus     []corpusEntry
)

func loadCorpus() []corpusEntry {
	corpusOnce.Do(func() {
		b, err := os.ReadFile(filepath.Join(kernel.VerifDir, "corpus", "script_tests.compiled.json"))
		if err != nil {
			panic("harness: corpus missing: " + err.Error())
		}
		if err := json.Unmarshal(b, &corpus); err != nil {
			panic("harness: corpus unreadable: " + err.Error())
		}
	})
	return corpus
}

func parseFlags(s string) scriptflag.Flag {
	var f scriptflag.Flag
	for _, t := range strings.Split(s, ",") {
		switch t {
		case "CHECKLOCKTIMEVERIFY":
			f |= scriptflag.VerifyCheckLockTimeVerify
		case "CHECKSEQUENCEVERIFY":
			f |= scriptflag.VerifyCheckSequenceVerify
		case "CLEANSTACK":
			f |= scriptflag.VerifyCleanStack
		case "DERSIG":
			f |= scriptflag.VerifyDERSignatures
		case "DISCOURAGE_UPGRADABLE_NOPS":
			f |= scriptflag.DiscourageUpgradableNops
		case "LOW_S":
			f |= scriptflag.VerifyLowS
		case "MINIMALDATA":
			f |= scriptflag.VerifyMinimalData
		case "NULLDUMMY":
			f |= scriptflag.StrictMultiSig
		case "NULLFAIL":
			f |= scriptflag.VerifyNullFail
		case "P2SH":
			f |= scriptflag.Bip16
		case "SIGPUSHONLY":
			f |= scriptflag.VerifySigPushOnly
		case "STRICTENC":
			f |= scriptflag.VerifyStrictEncoding
		case "UTXO_AFTER_GENESIS":
			f |= scriptflag.UTXOAfterGenesis
		case "MINIMALIF":
			f |= scriptflag.VerifyMinimalIf
		case "SIGHASH_FORKID":
			f |= scriptflag.EnableSighashForkID
		}
	}
	return f
}

// program is what gets executed.
type program struct {
	unlock, lock []byte
	flags        scriptflag.Flag
	amount       uint64
	src          string
	// optional signed-transaction context (nil: synthetic spending tx)
	txBytes []byte // extended-format bytes of the spending tx
	inIdx   int
	// scriptsOnly: execute through WithScripts (no transaction context)
	scriptsOnly bool
	// huge: the program builds a stack item of a MiB or more; it is observed through fingerprinting recorders only
	huge bool
}

// spendingTx builds the context the reference tests use (fresh objects every call).
func (p *program) context() (*bt.Tx, int, *bt.Output) {
	if p.txBytes != nil {
		tx, err := bt.NewTxFromBytes(p.txBytes)
		if err != nil {
			panic("harness: signed context does not parse: " + err.Error())
		}
		return tx, p.inIdx, &bt.Output{Satoshis: p.amount, LockingScript: scriptPtr(p.lock)}
	}
	lock := scriptPtr(p.lock)
	coinbase := &bt.Tx{Version: 1, Inputs: []*bt.Input{{PreviousTxOutIndex: ^uint32(0), UnlockingScript: scriptPtr([]byte{0, 0}), SequenceNumber: 0xffffffff}},
		Outputs: []*bt.Output{{Satoshis: p.amount, LockingScript: lock}}}
	_ = coinbase.Inputs[0].PreviousTxIDAdd(make([]byte, 32))
	tx := &bt.Tx{Version: 1, Inputs: []*bt.Input{{PreviousTxOutIndex: 0, PreviousTxScript: scriptPtr(p.lock), UnlockingScript: scriptPtr(p.unlock), SequenceNumber: 0xffffffff}},
		Outputs: []*bt.Output{{Satoshis: p.amount, LockingScript: scriptPtr(nil)}}}
	_ = tx.Inputs[0].PreviousTxIDAdd(coinbase.TxIDBytes())
	return tx, 0, &bt.Output{Satoshis: p.amount, LockingScript: scriptPtr(p.lock)}
}

type outcome struct {
	class string // ok | error | panic
	code  int
	text  string
	err   error
}

func (o outcome) String() string { return fmt.Sprintf("%s/%d/%s", o.class, o.code, o.text) }

func (o outcome) same(p outcome) bool {
	return o.class == p.class && o.code == p.code && o.text == p.text
}

func execProgram(p *program, dbg interpreter.Debugger) outcome {
	return execProgramOn(interpreter.NewEngine(), p, dbg)
}

// execProgramOn executes on a given (possibly shared) engine value.
func execProgramOn(eng interpreter.Engine, p *program, dbg interpreter.Debugger, extra ...interpreter.ExecutionOptionFunc) outcome {
	var opts []interpreter.ExecutionOptionFunc
	if p.scriptsOnly {
		opts = []interpreter.ExecutionOptionFunc{interpreter.WithScripts(scriptPtr(p.lock), scriptPtr(p.unlock)), interpreter.WithFlags(p.flags)}
	} else {
		tx, idx, prev := p.context()
		opts = []interpreter.ExecutionOptionFunc{interpreter.WithTx(tx, idx, prev), interpreter.WithFlags(p.flags)}
	}
	opts = append(opts, extra...)
	if dbg != nil {
		opts = append(opts, interpreter.WithDebugger(dbg))
	}
	var err error
	if pn := catch(func() { err = eng.Execute(opts...) }); pn != "" {
		return outcome{class: "panic", text: pn}
	}
	if err == nil {
		return outcome{class: "ok"}
	}
	o := outcome{class: "error", text: err.Error(), err: err, code: -1}
	var se errs.Error
	if errors.As(err, &se) {
		o.code = int(se.ErrorCode)
	}
	return o
}

// ---- program generation ----

var genOps = struct{ stack, arith, flow, splice, crypto, misc []byte }{
	stack:  []byte{0x6b, 0x6c, 0x6d, 0x6e, 0x6f, 0x70, 0x71, 0x72, 0x73, 0x74, 0x75, 0x76, 0x77, 0x78, 0x79, 0x7a, 0x7b, 0x7c, 0x7d, 0x82},
	arith:  []byte{0x8b, 0x8c, 0x8f, 0x90, 0x91, 0x92, 0x93, 0x94, 0x95, 0x96, 0x97, 0x9a, 0x9b, 0x9c, 0x9e, 0x9f, 0xa0, 0xa1, 0xa2, 0xa3, 0xa4, 0xa5, 0x87, 0x88, 0x9d, 0x69},
	flow:   []byte{0x63, 0x64, 0x67, 0x68},
	splice: []byte{0x7e, 0x7f, 0x81, 0x83, 0x84, 0x85, 0x86},
	crypto: []byte{0xa6, 0xa7, 0xa8, 0xa9, 0xaa, 0xab, 0xac, 0xad},
	misc:   []byte{0x61, 0x6a, 0x50, 0x62, 0x65, 0x66, 0x89, 0x8a, 0x8d, 0x8e, 0xb0, 0xb1, 0xb2, 0xb3, 0xb9, 0xba, 0xff, 0x98, 0x99},
}

func pushOf(data []byte) []byte {
	switch n := len(data); {
	case n == 0:
		return []byte{0}
	case n <= 75:
		return append([]byte{byte(n)}, data...)
	case n <= 255:
		return append([]byte{0x4c, byte(n)}, data...)
	case n <= 65535:
		return append([]byte{0x4d, byte(n), byte(n >> 8)}, data...)
	default:
		return append([]byte{0x4e, byte(n), byte(n >> 8), byte(n >> 16), byte(n >> 24)}, data...)
	}
}

// genLongNumbers is a per-run emphasis (swarm style) set by a world: every splice slot becomes long-number arithmetic.
var genLongNumbers bool

func genScript(c *kernel.RunCtx, n int, pushOnly bool) []byte {
	var s []byte
	depth := 0
	for i := 0; i < n; i++ {
		c.Begin("op")
		k := c.Pick(30, 22, 12, 10, 5, 4, 4)
		if pushOnly {
			k = 0
		}
		switch k {
		case 0:
			switch c.Pick(5, 4, 2, 1, 1) {
			case 0:
				s = append(s, 0x51+byte(c.Choose(16)))
			case 1:
				// 1-2 byte operands only: a 3-4 byte number in front of NUM2BIN or CHECKMULTISIG is a
				// gigabyte allocation after Genesis (the interpreter's limits there are MaxInt32)
				s = append(s, pushOf(c.Bytes(1+c.Choose(2)))...)
			case 2:
				s = append(s, 0x00)
			case 3:
				s = append(s, 0x4f)
			default:
				s = append(s, pushOf(c.Bytes([]int{20, 33, 75, 76, 80}[c.Choose(5)]))...)
			}
		case 1:
			s = append(s, genOps.stack[c.Choose(len(genOps.stack))])
		case 2:
			s = append(s, genOps.arith[c.Choose(len(genOps.arith))])
		case 3:
			switch {
			case depth > 0 && c.Bool(1, 2):
				if c.Bool(1, 3) {
					s = append(s, 0x67)
				} else {
					s = append(s, 0x68)
					depth--
				}
			default:
				s = append(s, 0x51-byte(c.Choose(2))*0x51, genOps.flow[c.Choose(2)])
				depth++
			}
		case 4:
			if c.Bool(1, 10) || genLongNumbers {
				// arithmetic on a long number (5..40 bytes, either sign): only meaningful after Genesis
				d := c.Bytes(5 + c.Choose(36))
				if c.Bool(2, 3) {
					d[len(d)-1] |= 0x80
				}
				if d[len(d)-1]&0x7f == 0 {
					d[len(d)-1] |= 0x01
				}
				s = append(s, pushOf(d)...)
				s = append(s, []byte{0x8b, 0x8c, 0x8f, 0x90, 0x91, 0x92}[c.Choose(6)])
				if c.Bool(1, 2) {
					s = append(s, 0x75, 0x51)
				}
				c.End()
				continue
			}
			if c.Bool(1, 14) {
				// a non-minimally encoded number, duplicated, one copy normalised, the two compared
				d := [][]byte{{0x01, 0x00, 0x80}, {0x05, 0x00, 0x00, 0x00, 0x80}, {0x7f, 0x00}, {0x00, 0x80}, {0x01, 0x00}}[c.Choose(5)]
				s = append(s, pushOf(d)...)
				s = append(s, []byte{0x76, 0x78}[c.Choose(2)]) // DUP / OVER
				s = append(s, 0x81)                            // BIN2NUM
				if c.Bool(1, 2) {
					// drop the normalised copy and compare the OTHER copy with a fresh push of the same literal
					s = append(s, 0x75)
					s = append(s, pushOf(d)...)
				}
				s = append(s, []byte{0x87, 0x88, 0x7c}[c.Choose(3)])
				c.End()
				continue
			}
			if c.Bool(1, 10) {
				// a duplicated item, one copy of which is then split / concatenated
				d := c.Bytes(2 + c.Choose(10))
				s = append(s, pushOf(d)...)
				s = append(s, []byte{0x76, 0x78, 0x6e}[c.Choose(3)]) // DUP / OVER / 2DUP
				s = append(s, 0x51+byte(c.Choose(len(d)-1)), 0x7f)   // <n> SPLIT, 0 < n < len
				if c.Bool(1, 2) {
					s = append(s, 0x7e) // CAT
				}
				c.End()
				continue
			}
			if c.Bool(1, 12) {
				// a comparison / signature-check result fed straight into a shift (results are fresh stack items)
				s = append(s, 0x51+byte(c.Choose(3)), 0x51+byte(c.Choose(3)), []byte{0x87, 0x9c, 0xa0}[c.Choose(3)], 0x51+byte(c.Choose(8)), 0x98+byte(c.Choose(2)))
				c.End()
				continue
			}
			switch c.Pick(8, 1, 1) {
			case 0:
				s = append(s, genOps.splice[c.Choose(len(genOps.splice))])
			case 1: // NUM2BIN only with a small size operand
				s = append(s, 0x51+byte(c.Choose(16)), 0x80)
			default: // 1-of-1 CHECKMULTISIG template
				s = append(s, 0x00)
				s = append(s, pushOf(c.Bytes(71))...)
				s = append(s, 0x51)
				s = append(s, pushOf(append([]byte{0x02}, c.Bytes(32)...))...)
				s = append(s, 0x51, 0xae+byte(c.Choose(2)))
			}
		case 5:
			s = append(s, genOps.crypto[c.Choose(len(genOps.crypto))])
		default:
			s = append(s, genOps.misc[c.Choose(len(genOps.misc))])
		}
		c.End()
	}
	for ; depth > 0 && c.Bool(4, 5); depth-- {
		s = append(s, 0x68)
	}
	return s
}

var genFlagSets = []string{"", "P2SH,STRICTENC", "MINIMALDATA", "UTXO_AFTER_GENESIS", "P2SH,STRICTENC,UTXO_AFTER_GENESIS", "P2SH,MINIMALIF", "P2SH,CLEANSTACK", "SIGPUSHONLY",
	"DISCOURAGE_UPGRADABLE_NOPS", "UTXO_AFTER_GENESIS,MINIMALDATA,MINIMALIF", "P2SH,CLEANSTACK,UTXO_AFTER_GENESIS", "SIGHASH_FORKID,UTXO_AFTER_GENESIS", "NULLFAIL,STRICTENC"}

func genProgram(c *kernel.RunCtx) *program {
	c.Begin("program")
	defer c.End()
	p := &program{src: "generated"}
	fs := genFlagSets[c.Choose(len(genFlagSets))]
	p.flags = parseFlags(fs)
	switch c.Pick(24, 12, 4, 1) {
	case 3: // one stack item larger than 64 KiB (post-Genesis only), whose bytes decide the verdict
		n := 65537 + c.Choose(5000)
		big := fillBytes(c, n)
		h := sha256.Sum256(big)
		if c.Bool(1, 2) {
			p.unlock = pushOf(big)
		} else {
			half := big[:n/2]
			rest := big[n/2:]
			p.unlock = append(append(pushOf(half), pushOf(rest)...), 0x7e) // built with OP_CAT
			if c.Bool(1, 2) {
				p.unlock = append(pushOf(half), pushOf(rest)...)
				p.lock = []byte{0x7e}
			}
		}
		p.lock = append(p.lock, 0x76, 0xa8) // DUP SHA256
		p.lock = append(p.lock, pushOf(h[:])...)
		p.lock = append(p.lock, 0x88, 0x82) // EQUALVERIFY SIZE
		p.lock = append(p.lock, pushOf(scriptNumBytes(n))...)
		p.lock = append(p.lock, 0x9c) // NUMEQUAL
		if c.Bool(1, 3) {
			p.lock = append(p.lock, 0x69, 0x51) // VERIFY 1
		}
		p.flags = parseFlags("UTXO_AFTER_GENESIS")
		p.src = "generated-big-item"
		p.amount = 1
		return p
	case 0:
		p.unlock = genScript(c, c.Range(0, 8), c.Bool(3, 4))
		p.lock = genScript(c, c.Range(1, 32), false)
	case 1: // P2SH wrapper
		redeem := genScript(c, c.Range(1, 16), false)
		p.unlock = append(genScript(c, c.Range(0, 5), true), pushOf(redeem)...)
		p.lock = append(append([]byte{0xa9, 0x14}, crypto.Hash160(redeem)...), 0x87)
		p.flags |= scriptflag.Bip16
		p.src = "generated-p2sh"
	default: // a top-level OP_RETURN somewhere
		p.unlock = genScript(c, c.Range(0, 4), true)
		p.lock = append(append(genScript(c, c.Range(0, 8), false), 0x6a), genScript(c, c.Range(0, 6), false)...)
		p.src = "generated-return"
	}
	p.amount = uint64(c.Choose(3)) * 1000
	return p
}

// hugeProgram: after Genesis, a block of about a KiB is doubled by DUP CAT until the item is 1-2.3 MiB (sizes on, just
// below and just above 2^20 and 2^21), sometimes parked on the alt stack for a few steps; its hash and size decide the verdict.
func hugeProgram(c *kernel.RunCtx) *program {
	c.Begin("huge")
	defer c.End()
	bl := []int{1024, 1023, 1025, 2048, 1100, 512, 4096}[c.Choose(7)]
	block := fillBytes(c, bl)
	k := 0
	for bl<<uint(k) < 1<<20 {
		k++
	}
	if c.Bool(1, 4) && bl<<uint(k+1) <= 2400000 {
		k++
	}
	big := block
	for i := 0; i < k; i++ {
		big = append(append(make([]byte, 0, 2*len(big)), big...), big...)
	}
	h := sha256.Sum256(big)
	wrong := c.Bool(1, 4)
	if wrong {
		h[c.Choose(32)] ^= 1
	}
	p := &program{src: fmt.Sprintf("generated-huge-item(%d bytes)", len(big)), huge: true, amount: 1, flags: parseFlags("UTXO_AFTER_GENESIS")}
	p.unlock = pushOf(block)
	for i := 0; i < k; i++ {
		p.lock = append(p.lock, 0x76, 0x7e) // DUP CAT
	}
	switch c.Choose(3) {
	case 1:
		p.lock = append(p.lock, 0x6b, 0x51, 0x75, 0x6c) // TOALTSTACK 1 DROP FROMALTSTACK
	case 2:
		p.lock = append(p.lock, 0x76, 0x6b, 0x75, 0x6c) // DUP TOALTSTACK DROP FROMALTSTACK
	}
	p.lock = append(p.lock, 0x76, 0xa8) // DUP SHA256
	p.lock = append(p.lock, pushOf(h[:])...)
	p.lock = append(p.lock, 0x88, 0x82) // EQUALVERIFY SIZE
	p.lock = append(p.lock, pushOf(scriptNumBytes(len(big)))...)
	p.lock = append(p.lock, 0x9c) // NUMEQUAL
	return p
}

func (w *c19World) pickProgram(c *kernel.RunCtx) *program {
	cp := loadCorpus()
	if c.RunIdx >= 2*len(cp) && c.RunIdx%499 == 17 {
		c.Count("probe.huge_item_program", 1)
		return hugeProgram(c)
	}
	if c.RunIdx < 2*len(cp) {
		e := cp[c.RunIdx/2]
		u, _ := hex.DecodeString(e.U)
		l, _ := hex.DecodeString(e.L)
		p := &program{unlock: u, lock: l, flags: parseFlags(e.F), amount: uint64(e.A), src: fmt.Sprintf("corpus#%d", c.RunIdx/2)}
		if c.RunIdx%2 == 1 {
			p.flags ^= scriptflag.UTXOAfterGenesis
			p.src += "/other-era"
		}
		c.Count("probe.corpus_program", 1)
		return p
	}
	if c.Bool(1, 6) {
		if p := signedProgram(c); p != nil {
			c.Count("probe.signed_tx_context", 1)
			return p
		}
	}
	if c.Bool(1, 5) { // mutate a corpus program
		e := cp[c.Choose(len(cp))]
		u, _ := hex.DecodeString(e.U)
		l, _ := hex.DecodeString(e.L)
		p := &program{unlock: u, lock: l, flags: parseFlags(genFlagSets[c.Choose(len(genFlagSets))]), amount: uint64(e.A), src: "corpus-reflagged"}
		return p
	}
	return genProgram(c)
}

func (w *c19World) Run(c *kernel.RunCtx) {
	p := w.pickProgram(c)
	c.Logf("program %s flags=%x unlock=%s lock=%s", p.src, uint32(p.flags), hx(p.unlock), hx(p.lock))
	// seeded scribble mode
	c.Begin("scribble")
	seeded := scribbleMode{on: true, kinds: uint32(c.U64n(1 << uint(evKinds))), fields: uint32(1 + c.Choose(31)), style: c.Choose(4)}
	nAttach := 1 + c.Choose(3)
	if c.RunIdx%5 == 2 {
		nAttach = 9 + c.RunIdx%4 // many functions on every attachment point
	}
	resumeAt := c.Choose(1 << 16)
	c19SharedEngine = nil
	if c.Bool(1, 2) {
		c19SharedEngine = interpreter.NewEngine()
		c.Count("probe.engine_reused_across_observers", 1)
	}
	c.End()
	checkProgram(c, p, seeded, nAttach, resumeAt)
}

// c19SharedEngine: in half of the runs every execution of the run (with and without observers) goes through ONE
// engine value, so state an engine keeps between executions is exercised too.
var c19SharedEngine interpreter.Engine

func c19Engine() interpreter.Engine {
	if c19SharedEngine != nil {
		return c19SharedEngine
	}
	return interpreter.NewEngine()
}

// checkProgram runs one program under every observer and applies all oracles.
func checkProgram(c *kernel.RunCtx, p *program, seeded scribbleMode, nAttach int, resumeAt int) {
	site := "Execute"
	const maxEvents = 60000
	const maxVolume = 48 << 20
	c.Exec()
	var o0 outcome
	if p.huge {
		// MiB-sized items: verdict and isolation through recorders that fingerprint instead of copying
		o0 = execProgramOn(c19Engine(), p, nil)
		plain := &recorder{max: maxEvents, light: true}
		c.Exec()
		o1 := execProgramOn(c19Engine(), p, plain)
		if !o0.same(o1) {
			c.Fail("verdict", site, "attaching a recording debugger changed the outcome: without %s, with %s (%s)", o0, o1, p.src)
			return
		}
		if o1.class != "panic" {
			if id, msg := lifecycleCheck(plain.events, o1.err, false); id != "" {
				c.Fail(id, site, "%s (%s)", msg, p.src)
				return
			}
		}
		for _, v := range []struct {
			name string
			mode scribbleMode
		}{{"scribble-all", scribbleMode{on: true, all: true}}, {"scribble-seeded", seeded}} {
			r := &recorder{mode: v.mode, max: maxEvents, light: true}
			c.Exec()
			o := execProgramOn(c19Engine(), p, r)
			c.Count("fault.scribble."+v.name, r.scribbled)
			if !o0.same(o) {
				c.Fail("verdict", site, "a debugger that %s changed the outcome: %s became %s (%s; scribble kinds %x fields %x style %d)", v.name, o0, o, p.src, v.mode.kinds, v.mode.fields, v.mode.style)
				return
			}
			if d := diffHistories(plain.events, r.events); d != "" {
				c.Fail("isolation", site, "history recorded under a %s debugger differs from the plain recording: %s (%s)", v.name, d, p.src)
				return
			}
		}
		c.Count("probe.huge_item_program_checked", 1)
		return
	}
	if meter(true, func() { o0 = execProgramOn(c19Engine(), p, nil) }) > 32<<20 {
		// a resource-hungry program (post-Genesis limits are MaxInt32): observing it 6 more times is not worth it
		c.Count("probe.skipped_oversized_program", 1)
		return
	}
	rec := &recorder{max: maxEvents, maxVolume: maxVolume, keep: true}
	c.Exec()
	o1 := execProgramOn(c19Engine(), p, rec)
	c.Logf("outcome none=%s recording=%s events=%d", o0, o1, len(rec.events))
	if o1.class == "panic" && o1.text == errTooBig {
		// observing this program would deep-copy too much stack data per callback: not explored
		c.Count("probe.skipped_oversized_program", 1)
		return
	}
	if strings.Contains(o1.text, "callback budget") {
		c.Fail("liveness", site, "execution under a recording debugger produced more than %d callbacks", maxEvents)
		return
	}
	if !o0.same(o1) {
		c.Fail("verdict", site, "attaching a recording debugger changed the outcome: without %s, with %s (%s flags %x unlock %x lock %x)", o0, o1, p.src, uint32(p.flags), p.unlock, p.lock)
		return
	}
	if c.Verbose {
		for i := range rec.events {
			if i < 60 {
				c.Logf("  %s", rec.events[i].String())
			}
		}
	}
	steps := 0
	for i := range rec.events {
		if rec.events[i].kind == evBO {
			steps++
		}
		c.Count("probe.cb."+evNames[rec.events[i].kind], 1)
	}
	if steps > 0 {
		c.DistinctH(kernel.FNV64b(kernel.FNV64b(kernel.FNV64(0, fmt.Sprint(uint32(p.flags), p.txBytes != nil)), p.unlock), append([]byte{0xff}, p.lock...)))
	}
	if len(rec.events) > 0 && len(rec.events[0].st.scripts) > 2 || hasThirdScript(rec.events) {
		c.Count("probe.p2sh_reentry_observed", 1)
	}
	if o0.class == "panic" {
		c.Count("probe.engine_panic_outcome", 1)
	}
	if c.WantSample() && steps > 3 {
		var names []string
		for i := range rec.events {
			if i < 40 {
				names = append(names, evNames[rec.events[i].kind])
			}
		}
		c.Sample(map[string]interface{}{"source": p.src, "flags": fmt.Sprintf("%x", uint32(p.flags)), "unlocking": hex.EncodeToString(p.unlock), "locking": hex.EncodeToString(p.lock), "outcome": o0.String(), "callbacks": len(rec.events), "first_callbacks": names})
	}
	// oracle 2: lifecycle automaton (skipped when the engine itself panicked: the history is cut short)
	if o1.class != "panic" {
		if id, msg := lifecycleCheck(rec.events, o1.err, false); id != "" {
			c.Fail(id, site, "%s (%s flags %x unlock %x lock %x)", msg, p.src, uint32(p.flags), p.unlock, p.lock)
			return
		}
		if len(rec.events) > 0 && o1.class == "error" && rec.events[len(rec.events)-1].kind == evER && rec.events[len(rec.events)-1].err != o1.err {
			// same text already enforced; identity is a bonus probe, not a violation
			c.Count("probe.aftererror_not_identical_value", 1)
		}
	}
	// oracle 3: snapshot consistency
	if id, msg := consistencyCheck(rec.events, p.unlock, p.lock); id != "" {
		c.Fail(id, site, "%s (%s flags %x unlock %x lock %x)", msg, p.src, uint32(p.flags), p.unlock, p.lock)
		return
	}
	// oracle 1+4 under hostile observers
	variants := []struct {
		name string
		mode scribbleMode
	}{{"scribble-all", scribbleMode{on: true, all: true}}, {"scribble-seeded", seeded}}
	for _, v := range variants {
		r := &recorder{mode: v.mode, max: maxEvents}
		c.Exec()
		o := execProgramOn(c19Engine(), p, r)
		c.Count("fault.scribble."+v.name, r.scribbled)
		if !o0.same(o) {
			c.Fail("verdict", site, "a debugger that %s changed the outcome: %s became %s (%s flags %x unlock %x lock %x; scribble kinds %x fields %x style %d)", v.name, o0, o, p.src, uint32(p.flags), p.unlock, p.lock, v.mode.kinds, v.mode.fields, v.mode.style)
			return
		}
		if d := diffHistories(rec.events, r.events); d != "" {
			c.Fail("isolation", site, "history recorded under a %s debugger differs from the plain recording: %s (%s flags %x unlock %x lock %x)", v.name, d, p.src, uint32(p.flags), p.unlock, p.lock)
			return
		}
	}
	// resume: a BeforeStep snapshot is a faithful state — continuing from it gives the same rest of the run
	var bsIdx []int
	for i := range rec.events {
		if rec.events[i].kind == evBS && i < len(rec.states) && rec.states[i] != nil {
			bsIdx = append(bsIdx, i)
		}
	}
	// Programs containing an opcode that rewrites its operand in place (BIN2NUM, LSHIFT, RSHIFT) are left out:
	// through stack-item aliasing (C08's subject, present on the unchanged tree) the original run and a run
	// restored from deep copies legitimately differ there.
	inPlace := false
	scan := func(ops []opSnap) {
		for _, op := range ops {
			if op.val == 0x81 || op.val == 0x98 || op.val == 0x99 {
				inPlace = true
			}
		}
	}
	if len(rec.events) > 0 && rec.events[0].st != nil {
		for _, ops := range rec.events[0].st.scripts {
			scan(ops)
		}
	}
	for i := range rec.events {
		if st := rec.events[i].st; st != nil && len(st.scripts) > 2 {
			scan(st.scripts[2]) // the P2SH redeem script
			break
		}
	}
	if len(bsIdx) > 0 && o0.class != "panic" && !inPlace {
		k := bsIdx[resumeAt%len(bsIdx)]
		// (one use of a fresh copy only: what WithState does to the object it is given — it adopts some of its
		// slices — is not something C19 speaks about, and opcodes that rewrite operands in place would show
		// through it; see DESIGN.md §11)
		snapObj := cloneState(rec.states[k])
		r := &recorder{max: maxEvents}
		c.Exec()
		o := execProgramOn(interpreter.NewEngine(), p, r, interpreter.WithState(snapObj))
		c.Count("probe.resumed_from_snapshot", 1)
		if !o0.same(o) {
			c.Fail("resume", site, "resuming from the BeforeStep snapshot of callback %d gives %s, the original run gave %s (%s flags %x unlock %x lock %x)", k, o, o0, p.src, uint32(p.flags), p.unlock, p.lock)
			return
		}
		first := -1
		for i := range r.events {
			if r.events[i].kind == evBS {
				first = i
				break
			}
		}
		if first < 0 {
			c.Fail("resume", site, "resumed run never reached a step (callback %d)", k)
			return
		}
		if d := diffHistoriesLoose(rec.events[k:], r.events[first:]); d != "" {
			c.Fail("resume", site, "the run resumed from the BeforeStep snapshot of callback %d diverges from the original: %s (%s flags %x unlock %x lock %x)", k, d, p.src, uint32(p.flags), p.unlock, p.lock)
			return
		}
		// "attaching a debugger never changes the verdict" on the injected-state route as well: start from an
		// EDITED snapshot (top of the data stack replaced) with and without an observer
		edit := func() *interpreter.State {
			e := cloneState(rec.states[k])
			if n := len(e.DataStack); n > 0 {
				if len(e.DataStack[n-1]) == 0 {
					e.DataStack[n-1] = []byte{1}
				} else {
					e.DataStack[n-1] = []byte{}
				}
			} else {
				e.DataStack = append(e.DataStack, []byte{1}, []byte{})
			}
			return e
		}
		c.Exec()
		oPlain := execProgramOn(interpreter.NewEngine(), p, nil, interpreter.WithState(edit()))
		c.Exec()
		oObs := execProgramOn(interpreter.NewEngine(), p, &recorder{max: maxEvents}, interpreter.WithState(edit()))
		if !oPlain.same(oObs) {
			c.Fail("verdict", site, "started from an edited snapshot (callback %d) the execution gives %s without a debugger and %s with one (%s flags %x unlock %x lock %x)", k, oPlain, oObs, p.src, uint32(p.flags), p.unlock, p.lock)
			return
		}
		if !oPlain.same(o0) {
			c.Count("probe.edited_state_changed_verdict", 1)
		}
	}
	// a debugger that is a struct VALUE (methods on the value, its state behind a pointer), handed over through ONE
	// WithDebugger option value that is applied to two executions in a row
	if len(rec.events) < maxEvents {
		h := &recHolder{r: &recorder{max: maxEvents}}
		opt := interpreter.WithDebugger(valDebugger{h})
		for round := 0; round < 2; round++ {
			c.Exec()
			o := execProgramOn(c19Engine(), p, nil, opt)
			if !o0.same(o) {
				c.Fail("verdict", site, "with a value-type debugger passed through one WithDebugger option value (use %d of that value) the outcome %s became %s (%s flags %x unlock %x lock %x)", round+1, o0, o, p.src, uint32(p.flags), p.unlock, p.lock)
				return
			}
			if dd := diffHistories(rec.events, h.r.events); dd != "" || len(rec.events) != len(h.r.events) {
				c.Fail("lifecycle-order", site, "use %d of one WithDebugger option value: the debugger saw %d callbacks, a fresh option value gives %d: %s (%s flags %x unlock %x lock %x)", round+1, len(h.r.events), len(rec.events), dd, p.src, uint32(p.flags), p.unlock, p.lock)
				return
			}
			h.r = &recorder{max: maxEvents}
		}
		c.Count("probe.option_value_applied_twice", 1)
	}
	// WithDebugger given twice in one call (a scribbler, then a recorder): whatever the library does with the first one,
	// the second one must see the normal history and the outcome must be the normal one
	if len(rec.events) < maxEvents && c.RunIdx%2 == 0 {
		first := &recorder{mode: scribbleMode{on: true, all: true}}
		second := &recorder{max: maxEvents}
		c.Exec()
		o := execProgramOn(c19Engine(), p, second, interpreter.WithDebugger(first))
		if !o0.same(o) {
			c.Fail("verdict", site, "with WithDebugger given twice (scribbler, then recorder) the outcome %s became %s (%s flags %x unlock %x lock %x)", o0, o, p.src, uint32(p.flags), p.unlock, p.lock)
			return
		}
		if dd := diffHistories(rec.events, second.events); dd != "" || len(rec.events) != len(second.events) {
			c.Fail("isolation", site, "WithDebugger given twice (scribbler, then recorder): the recorder saw %d callbacks, alone it sees %d: %s (%s flags %x unlock %x lock %x)", len(second.events), len(rec.events), dd, p.src, uint32(p.flags), p.unlock, p.lock)
			return
		}
		c.Count("probe.debugger_option_given_twice", 1)
	}
	// late attachment: a debug.NewDebugger that has nothing but one BeforeExecute function when Execute starts; that
	// function attaches everything else. From then on it must see what the direct recording saw.
	if first := firstOf(rec.events, evBE); first >= 0 && len(rec.events) < maxEvents {
		late := &recorder{max: maxEvents}
		d := debug.NewDebugger()
		attached := false
		d.AttachBeforeExecute(func(*interpreter.State) {
			if attached {
				return
			}
			attached = true
			d.AttachAfterExecute(late.AfterExecute)
			d.AttachBeforeStep(late.BeforeStep)
			d.AttachAfterStep(late.AfterStep)
			d.AttachBeforeExecuteOpcode(late.BeforeExecuteOpcode)
			d.AttachAfterExecuteOpcode(late.AfterExecuteOpcode)
			d.AttachBeforeScriptChange(late.BeforeScriptChange)
			d.AttachAfterScriptChange(late.AfterScriptChange)
			d.AttachAfterSuccess(late.AfterSuccess)
			d.AttachAfterError(late.AfterError)
			d.AttachBeforeStackPush(late.BeforeStackPush)
			d.AttachAfterStackPush(late.AfterStackPush)
			d.AttachBeforeStackPop(late.BeforeStackPop)
			d.AttachAfterStackPop(late.AfterStackPop)
		})
		c.Exec()
		o := execProgramOn(c19Engine(), p, d)
		if !o0.same(o) {
			c.Fail("verdict", site, "executing through a debug.NewDebugger whose functions are attached from its BeforeExecute function changed the outcome: %s became %s (%s flags %x unlock %x lock %x)", o0, o, p.src, uint32(p.flags), p.unlock, p.lock)
			return
		}
		var want []event
		for _, e := range rec.events[first+1:] {
			if e.kind != evBE {
				want = append(want, e)
			}
		}
		if dd := diffHistories(want, late.events); dd != "" || len(want) != len(late.events) {
			c.Fail("fanout", site, "functions attached from inside the BeforeExecute function saw a different history (%d callbacks, the direct recording has %d after BeforeExecute): %s (%s flags %x unlock %x lock %x)", len(late.events), len(want), dd, p.src, uint32(p.flags), p.unlock, p.lock)
			return
		}
		c.Count("probe.late_attachment_checked", 1)
	}
	// fan-out
	for pass := 0; pass < 2; pass++ {
		r := &recorder{max: maxEvents}
		var order []int
		d := debug.NewDebugger()
		if pass == 1 {
			d = debug.NewDebugger(debug.WithRewind()) // the option door: documented to keep frames, nothing more
		}
		scrib := &recorder{mode: scribbleMode{on: true, all: true}}
		for k := 0; k < nAttach; k++ {
			k := k
			mark := func(*interpreter.State) { order = append(order, k) }
			markS := func(*interpreter.State, []byte) { order = append(order, k) }
			d.AttachBeforeExecute(mark)
			d.AttachAfterExecute(mark)
			d.AttachBeforeStep(mark)
			d.AttachAfterStep(mark)
			d.AttachBeforeExecuteOpcode(mark)
			d.AttachAfterExecuteOpcode(mark)
			d.AttachBeforeScriptChange(mark)
			d.AttachAfterScriptChange(mark)
			d.AttachAfterSuccess(mark)
			d.AttachAfterError(func(*interpreter.State, error) { order = append(order, k) })
			d.AttachBeforeStackPush(markS)
			d.AttachAfterStackPush(markS)
			d.AttachBeforeStackPop(mark)
			d.AttachAfterStackPop(markS)
			if k == 0 {
				attachRecorder(d, r)
				if pass == 1 {
					attachRecorder(d, scrib)
				}
			}
		}
		c.Exec()
		o := execProgramOn(c19Engine(), p, d)
		name := []string{"fan-out", "fan-out+scribbler"}[pass]
		if !o0.same(o) {
			c.Fail("verdict", site, "executing through debug.NewDebugger (%s) changed the outcome: %s became %s (%s flags %x unlock %x lock %x)", name, o0, o, p.src, uint32(p.flags), p.unlock, p.lock)
			return
		}
		if dd := diffHistories(rec.events, r.events); dd != "" {
			c.Fail("fanout", site, "history seen through debug.NewDebugger (%s) differs from the direct recording: %s (%s flags %x unlock %x lock %x)", name, dd, p.src, uint32(p.flags), p.unlock, p.lock)
			return
		}
		if len(order) != nAttach*len(r.events) {
			c.Fail("fanout", site, "%d attached functions per point saw %d calls for %d callbacks (%s)", nAttach, len(order), len(r.events), name)
			return
		}
		for i, k := range order {
			if k != i%nAttach {
				c.Fail("fanout", site, "attached functions were not called first-in-first-out at callback %d (%s)", i/nAttach, name)
				return
			}
		}
	}
}

func hasThirdScript(h []event) bool {
	for i := range h {
		if h[i].st != nil && len(h[i].st.scripts) > 2 {
			return true
		}
	}
	return false
}

// valDebugger implements interpreter.Debugger on a struct value.
type recHolder struct{ r *recorder }
type valDebugger struct{ h *recHolder }

func (v valDebugger) BeforeExecute(s *interpreter.State)             { v.h.r.BeforeExecute(s) }
func (v valDebugger) AfterExecute(s *interpreter.State)              { v.h.r.AfterExecute(s) }
func (v valDebugger) BeforeStep(s *interpreter.State)                { v.h.r.BeforeStep(s) }
func (v valDebugger) AfterStep(s *interpreter.State)                 { v.h.r.AfterStep(s) }
func (v valDebugger) BeforeExecuteOpcode(s *interpreter.State)       { v.h.r.BeforeExecuteOpcode(s) }
func (v valDebugger) AfterExecuteOpcode(s *interpreter.State)        { v.h.r.AfterExecuteOpcode(s) }
func (v valDebugger) BeforeScriptChange(s *interpreter.State)        { v.h.r.BeforeScriptChange(s) }
func (v valDebugger) AfterScriptChange(s *interpreter.State)         { v.h.r.AfterScriptChange(s) }
func (v valDebugger) AfterSuccess(s *interpreter.State)              { v.h.r.AfterSuccess(s) }
func (v valDebugger) AfterError(s *interpreter.State, err error)     { v.h.r.AfterError(s, err) }
func (v valDebugger) BeforeStackPush(s *interpreter.State, d []byte) { v.h.r.BeforeStackPush(s, d) }
func (v valDebugger) AfterStackPush(s *interpreter.State, d []byte)  { v.h.r.AfterStackPush(s, d) }
func (v valDebugger) BeforeStackPop(s *interpreter.State)            { v.h.r.BeforeStackPop(s) }
func (v valDebugger) AfterStackPop(s *interpreter.State, d []byte)   { v.h.r.AfterStackPop(s, d) }

func firstOf(ev []event, k evKind) int {
	for i := range ev {
		if ev[i].kind == k {
			return i
		}
	}
	return -1
}

func attachRecorder(d debug.DefaultDebugger, r *recorder) {
	d.AttachBeforeExecute(r.BeforeExecute)
	d.AttachAfterExecute(r.AfterExecute)
	d.AttachBeforeStep(r.BeforeStep)
	d.AttachAfterStep(r.AfterStep)
	d.AttachBeforeExecuteOpcode(r.BeforeExecuteOpcode)
	d.AttachAfterExecuteOpcode(r.AfterExecuteOpcode)
	d.AttachBeforeScriptChange(r.BeforeScriptChange)
	d.AttachAfterScriptChange(r.AfterScriptChange)
	d.AttachAfterSuccess(r.AfterSuccess)
	d.AttachAfterError(r.AfterError)
	d.AttachBeforeStackPush(r.BeforeStackPush)
	d.AttachAfterStackPush(r.AfterStackPush)
	d.AttachBeforeStackPop(r.BeforeStackPop)
	d.AttachAfterStackPop(r.AfterStackPop)
}

// signedProgram is filled in by the C04 world's generator (library-signed P2PKH spends).
var signedProgram = func(c *kernel.RunCtx) *program { return nil }
