// Package worlds holds the simulated worlds, one per claimed property.
package worlds

import (
	"bytes"
	"fmt"

	"github.com/libsv/go-bk/crypto"
	"github.com/libsv/go-bt/v2/bscript"

	"verif/sim/kernel"
)

func cryptoHash160(b []byte) []byte { return crypto.Hash160(b) }

// p2pkh builds the 25-byte template by hand (no library code).
func p2pkh(h20 []byte) []byte {
	s := []byte{0x76, 0xa9, 0x14}
	s = append(s, h20...)
	return append(s, 0x88, 0xac)
}

func scriptPtr(b []byte) *bscript.Script {
	s := bscript.Script(append([]byte(nil), b...))
	return &s
}

func scriptBytes(s *bscript.Script) []byte {
	if s == nil {
		return nil
	}
	return []byte(*s)
}

func sameBytes(a, b []byte) bool { return bytes.Equal(a, b) }

// catch runs f and converts a panic into a string.
func catch(f func()) (p string) {
	defer func() {
		if r := recover(); r != nil {
			p = fmt.Sprint(r)
			if p == "" {
				p = "panic"
			}
		}
	}()
	f()
	return ""
}

func hx(b []byte) string {
	if len(b) > 48 {
		return fmt.Sprintf("%x…(%d bytes)", b[:48], len(b))
	}
	return fmt.Sprintf("%x", b)
}

// boundaryLen draws a length biased to varint / push-data boundaries.
func boundaryLen(c *kernel.RunCtx, max int) int {
	switch c.Pick(40, 12, 6, 6, 6, 3, 3) {
	case 0:
		return c.Range(0, 40)
	case 1:
		return []int{0, 1, 2, 75, 76, 77}[c.Choose(6)]
	case 2:
		return []int{252, 253, 254, 255, 256}[c.Choose(5)]
	case 3:
		return c.Range(200, 300)
	case 4:
		n := c.Range(0, 2000)
		if n > max {
			n = max
		}
		return n
	case 6:
		// the sizes buffers and pools are usually made in: 4 KiB ... 48 KiB, on and next to the powers of two
		n := []int{4095, 4096, 4097, 8191, 8192, 8193, 16383, 16384, 16385, 20000, 32767, 32768, 32769, 49152, c.Range(2000, 65000), c.Range(2000, 65000)}[c.Choose(16)]
		if n > max {
			n = max
		}
		return n
	default:
		// around one, two, three and four 64 KiB read chunks
		n := []int{65535, 65536, 65537, 131071, 131072, 131073, 196609, 262145, 200001}[c.Choose(9)]
		if n > max {
			n = max
		}
		return n
	}
}

// fillBytes returns n bytes; long strings come from a private generator seeded by ONE tape value
// (a 256 KiB script must not cost 32 768 tape entries).
func fillBytes(c *kernel.RunCtx, n int) []byte {
	if n <= 4096 {
		return c.Bytes(n)
	}
	g := kernel.NewXoshiro(c.U64n(0))
	out := make([]byte, n)
	for i := 0; i < n; i += 8 {
		v := g.Next()
		for j := 0; j < 8 && i+j < n; j++ {
			out[i+j] = byte(v >> (8 * uint(j)))
		}
	}
	return out
}
