package worlds

import (
	"bytes"
	"fmt"
)

// lifecycleCheck is the automaton written from the documentation in
// bscript/interpreter/debug.go (with the relaxations listed in DESIGN.md §3
// C19). It returns "" or (oracle-id, message).
func lifecycleCheck(h []event, execErr error, setupRejected bool) (string, string) {
	if len(h) == 0 {
		return "", ""
	}
	if h[0].kind != evBE {
		return "lifecycle-start", fmt.Sprintf("first callback is %s, want BeforeExecute", evNames[h[0].kind])
	}
	phase := 0 // 0 running, 1 after AfterExecute, 2 terminated
	inStep, sawBO, sawAO, sawBC, sawAC := false, false, false, false, false
	pendPush, pendPop := false, false
	var pushArg []byte
	abortedStep := false
	popPairsAfterAE := 0
	steps := 0
	lastASFinished := false
	for i := 1; i < len(h); i++ {
		e := &h[i]
		bad := func(why string) (string, string) {
			lo := i - 6
			if lo < 0 {
				lo = 0
			}
			ctx := ""
			for j := lo; j <= i; j++ {
				ctx += evNames[h[j].kind] + " "
			}
			return "lifecycle-order", fmt.Sprintf("event %d (%s): %s; preceding callbacks: %s", i, evNames[e.kind], why, ctx)
		}
		if phase == 2 {
			return bad("callback after the terminal AfterSuccess/AfterError")
		}
		switch e.kind {
		case evBE:
			return bad("BeforeExecute fired twice")
		case evBS:
			if phase != 0 || inStep || pendPush || pendPop {
				return bad("BeforeStep while a step is open or execution is over")
			}
			inStep, sawBO, sawAO, sawBC, sawAC = true, false, false, false, false
		case evBO:
			if !inStep || sawBO || phase != 0 {
				return bad("BeforeExecuteOpcode outside a step or twice in one step")
			}
			sawBO = true
		case evAO:
			if !inStep || !sawBO || sawAO || pendPush || pendPop {
				return bad("AfterExecuteOpcode without a matching BeforeExecuteOpcode in this step")
			}
			if sawBC {
				return bad("AfterExecuteOpcode after the script change of the same step")
			}
			sawAO = true
		case evBC:
			if !inStep || !sawBO || sawBC || pendPush || pendPop {
				return bad("BeforeScriptChange outside a step, before the opcode, or twice")
			}
			sawBC = true
		case evAC:
			if !sawBC || sawAC || h[i-1].kind != evBC {
				return bad("AfterScriptChange does not directly follow BeforeScriptChange")
			}
			sawAC = true
		case evPUb, evPOb:
			okPlace := (phase == 0 && inStep && sawBO) || phase == 1
			if !okPlace || pendPush || pendPop {
				return bad("stack callback outside an opcode / final check, or nested")
			}
			if sawBC && !sawAC {
				return bad("stack callback between BeforeScriptChange and AfterScriptChange")
			}
			if phase == 0 && sawAO && !sawBC && e.kind == evPUb {
				// documented order: the P2SH hand-over pushes come after the script change; between
				// AfterExecuteOpcode and the script change only the alt-stack clean-up (pops) is tolerated
				return bad("stack push between AfterExecuteOpcode and the script change")
			}
			if e.kind == evPUb {
				pendPush, pushArg = true, e.arg
			} else {
				pendPop = true
			}
		case evPUa:
			if !pendPush || h[i-1].kind != evPUb {
				return bad("AfterStackPush without BeforeStackPush")
			}
			if !bytes.Equal(pushArg, e.arg) {
				return "lifecycle-order", fmt.Sprintf("event %d: AfterStackPush reports %x, BeforeStackPush reported %x", i, e.arg, pushArg)
			}
			pendPush = false
		case evPOa:
			if !pendPop || h[i-1].kind != evPOb {
				return bad("AfterStackPop without BeforeStackPop")
			}
			pendPop = false
			if phase == 1 {
				popPairsAfterAE++
			}
			if phase == 0 && sawAO && !sawBC && e.st != nil && h[i-1].st != nil && len(e.st.data) != len(h[i-1].st.data) {
				return bad("data-stack pop between AfterExecuteOpcode and the script change (only the alt-stack clean-up happens there)")
			}
		case evAS:
			if !inStep || !sawBO || pendPush || pendPop || (sawBC && !sawAC) || phase != 0 {
				return bad("AfterStep without an open, executed step")
			}
			inStep = false
			steps++
			lastASFinished = e.st != nil && e.st.finished
		case evAE:
			if phase != 0 {
				return bad("AfterExecute fired twice")
			}
			if pendPush {
				return bad("AfterExecute while a stack push is open")
			}
			abortedStep = inStep
			if !inStep && steps > 0 && !lastASFinished {
				return "lifecycle-order", fmt.Sprintf("event %d: AfterExecute follows an AfterStep whose snapshot is not finished — a step was reported complete although execution stopped there", i)
			}
			phase = 1
			inStep, pendPop = false, false
		case evOK, evER:
			if phase != 1 {
				return bad("terminal callback before AfterExecute")
			}
			if pendPush || pendPop && e.kind == evOK {
				return bad("terminal callback while a stack callback is open")
			}
			if popPairsAfterAE > 1 {
				return bad("more than one pop in the final truth test")
			}
			if abortedStep && (e.kind == evOK || popPairsAfterAE > 0) {
				return bad("execution stopped inside a step but ended like a completed run")
			}
			if e.kind == evOK && execErr != nil {
				return "lifecycle-terminal", fmt.Sprintf("AfterSuccess fired but Execute returned %v", execErr)
			}
			if e.kind == evER {
				if execErr == nil {
					return "lifecycle-terminal", fmt.Sprintf("AfterError(%v) fired but Execute returned nil", e.err)
				}
				if e.err == nil || e.err.Error() != execErr.Error() {
					return "lifecycle-terminal", fmt.Sprintf("AfterError carried %v, Execute returned %v", e.err, execErr)
				}
			}
			phase = 2
		}
	}
	if phase != 2 {
		return "lifecycle-terminal", fmt.Sprintf("history of %d callbacks has no terminal AfterSuccess/AfterError (last: %s)", len(h), evNames[h[len(h)-1].kind])
	}
	if setupRejected {
		return "lifecycle-order", "callbacks fired although the execution was rejected during set-up"
	}
	return "", ""
}

func sameShape(a, b []opSnap) bool {
	if len(a) != len(b) {
		return false
	}
	for i := range a {
		if a[i].val != b[i].val || a[i].len != b[i].len || len(a[i].data) != len(b[i].data) {
			return false
		}
	}
	return true
}

func sameStack(a, b [][]byte) bool {
	if len(a) != len(b) {
		return false
	}
	for i := range a {
		if !bytes.Equal(a[i], b[i]) {
			return false
		}
	}
	return true
}

// restEqual: everything but the two main stacks is unchanged.
func restEqual(a, b *snap) bool {
	if a.scriptIdx != b.scriptIdx || a.opIdx != b.opIdx || a.numOps != b.numOps || a.lastSep != b.lastSep || a.flags != b.flags {
		return false
	}
	if !sameStack(a.els, b.els) || !sameStack(a.saved, b.saved) || len(a.cond) != len(b.cond) {
		return false
	}
	for i := range a.cond {
		if a.cond[i] != b.cond[i] {
			return false
		}
	}
	return true
}

// consistencyCheck: snapshot-consistency clauses over a recorded history.
// scripts are the caller's unlocking and locking scripts.
func consistencyCheck(h []event, unlocking, locking []byte) (string, string) {
	var lastAS *snap
	lastPC := [2]int{-1, -1}
	var bo *snap
	for i := range h {
		e := &h[i]
		st := e.st
		if st == nil {
			return "snapshot-nil", fmt.Sprintf("event %d (%s) carried a nil snapshot", i, evNames[e.kind])
		}
		// scripts are the caller's bytes
		if len(st.scripts) < 2 {
			return "snapshot-scripts", fmt.Sprintf("event %d (%s): snapshot holds %d scripts", i, evNames[e.kind], len(st.scripts))
		}
		if i == 0 {
			// what the first snapshot shows is what the caller passed in
			if !bytes.Equal(unparseOps(st.scripts[0]), unlocking) || !bytes.Equal(unparseOps(st.scripts[1]), locking) {
				return "snapshot-scripts", fmt.Sprintf("event %d (%s): snapshot scripts do not unparse to the caller's scripts", i, evNames[e.kind])
			}
		} else if st.key != h[i-1].st.key {
			// later the instruction structure must stay (push payloads are not compared: some opcodes
			// rewrite their operand in place inside the script buffer, which is C08's subject, not C19's)
			f := h[0].st
			if len(st.scripts) < len(f.scripts) || len(st.scripts) > 3 || !sameShape(st.scripts[0], f.scripts[0]) || !sameShape(st.scripts[1], f.scripts[1]) {
				return "snapshot-scripts", fmt.Sprintf("event %d (%s): the scripts in the snapshot are no longer the scripts being executed (%d scripts, first snapshot had %d)", i, evNames[e.kind], len(st.scripts), len(f.scripts))
			}
		}
		if st.scriptIdx < 0 || st.scriptIdx >= len(st.scripts) {
			return "snapshot-pc", fmt.Sprintf("event %d (%s): ScriptIdx %d outside the %d scripts of the snapshot", i, evNames[e.kind], st.scriptIdx, len(st.scripts))
		}
		// the P2SH hand-over (the redeem script appears as a third script): the documented lifecycle announces the
		// restored stack -- "if bip16 and end of final script: BeforeStackPush / AfterStackPush" -- item by item,
		// after the script change and before AfterStep
		if i > 0 && h[i-1].st != nil && len(h[i-1].st.scripts) == 2 && len(st.scripts) == 3 {
			end := -1
			for j := i; j < len(h); j++ {
				if h[j].kind == evAS {
					end = j
					break
				}
				if h[j].kind == evBS || h[j].kind == evAE {
					break
				}
			}
			if end >= 0 && h[end].st != nil {
				start := i
				for start > 0 && h[start].kind != evAO && h[start].kind != evBO {
					start--
				}
				var pushed [][]byte
				for j := start; j < end; j++ {
					if h[j].kind == evPUa {
						pushed = append(pushed, h[j].arg)
					}
				}
				want := h[end].st.data
				if len(pushed) < len(want) || !sameStack(pushed[len(pushed)-len(want):], want) {
					return "lifecycle-order", fmt.Sprintf("event %d: the P2SH hand-over left %d items on the data stack but announced %d pushes after the opcode: the documented BeforeStackPush / AfterStackPush of the restored stack are missing", i, len(want), len(pushed))
				}
			}
		}
		switch e.kind {
		case evBS:
			if lastAS != nil && lastAS.key != st.key {
				return "snapshot-continuity", fmt.Sprintf("event %d: BeforeStep snapshot differs from the preceding AfterStep snapshot: %s  vs  %s", i, clip(st.describe(), 400), clip(lastAS.describe(), 400))
			}
		case evAS:
			lastAS = st
		case evBO:
			if st.opIdx < 0 || st.opIdx >= len(st.scripts[st.scriptIdx]) {
				return "snapshot-pc", fmt.Sprintf("event %d: BeforeExecuteOpcode at %d:%d but script %d has %d opcodes", i, st.scriptIdx, st.opIdx, st.scriptIdx, len(st.scripts[st.scriptIdx]))
			}
			pc := [2]int{st.scriptIdx, st.opIdx}
			if !(pc[0] > lastPC[0] || (pc[0] == lastPC[0] && pc[1] > lastPC[1])) {
				return "snapshot-pc", fmt.Sprintf("event %d: program counter went from %d:%d to %d:%d (must strictly increase)", i, lastPC[0], lastPC[1], pc[0], pc[1])
			}
			lastPC = pc
			bo = st
		case evPUa:
			b := h[i-1].st
			if i == 0 || h[i-1].kind != evPUb || b == nil {
				break
			}
			okD := len(st.data) == len(b.data)+1 && sameStack(st.data[:len(b.data)], b.data) && bytes.Equal(st.data[len(b.data)], e.arg) && sameStack(st.alt, b.alt)
			okA := len(st.alt) == len(b.alt)+1 && sameStack(st.alt[:len(b.alt)], b.alt) && bytes.Equal(st.alt[len(b.alt)], e.arg) && sameStack(st.data, b.data)
			if !(okD || okA) || !restEqual(b, st) {
				return "snapshot-pushpop", fmt.Sprintf("event %d: the snapshots around a push of %x do not differ by exactly that item on one stack (data %d->%d, alt %d->%d)", i, e.arg, len(b.data), len(st.data), len(b.alt), len(st.alt))
			}
		case evPOa:
			b := h[i-1].st
			if i == 0 || h[i-1].kind != evPOb || b == nil {
				break
			}
			okD := len(b.data) == len(st.data)+1 && sameStack(b.data[:len(st.data)], st.data) && bytes.Equal(b.data[len(st.data)], e.arg) && sameStack(st.alt, b.alt)
			okA := len(b.alt) == len(st.alt)+1 && sameStack(b.alt[:len(st.alt)], st.alt) && bytes.Equal(b.alt[len(st.alt)], e.arg) && sameStack(st.data, b.data)
			if !(okD || okA) || !restEqual(b, st) {
				return "snapshot-pushpop", fmt.Sprintf("event %d: the snapshots around a pop of %x do not differ by exactly that item on one stack (data %d->%d, alt %d->%d)", i, e.arg, len(b.data), len(st.data), len(b.alt), len(st.alt))
			}
		case evAO:
			if bo == nil {
				break
			}
			if msg := dataMovementCheck(bo, st); msg != "" {
				return "snapshot-step", fmt.Sprintf("event %d: %s", i, msg)
			}
			if msg := condStepCheck(bo, st); msg != "" {
				return "snapshot-step", fmt.Sprintf("event %d: %s", i, msg)
			}
			// the code-separator index moves only when an OP_CODESEPARATOR executes
			if len(bo.cond) == 0 && !bo.early {
				wantSep := bo.lastSep
				if bo.scripts[bo.scriptIdx][bo.opIdx].val == 0xab {
					wantSep = bo.opIdx
				}
				if st.lastSep != wantSep {
					return "snapshot-step", fmt.Sprintf("event %d: LastCodeSeparatorIdx went from %d to %d across opcode 0x%02x at %d:%d (expected %d)", i, bo.lastSep, st.lastSep, bo.scripts[bo.scriptIdx][bo.opIdx].val, bo.scriptIdx, bo.opIdx, wantSep)
				}
			}
			// the operation counter: every executed-or-skipped opcode above OP_16 counts once
			// (CHECKMULTISIG adds its key count, so it is left out)
			if op := bo.scripts[bo.scriptIdx][bo.opIdx]; op.val != 0xae && op.val != 0xaf && !(bo.opIdx > 0 && bo.scripts[bo.scriptIdx][bo.opIdx-1].val == 0x6a) {
				want := bo.numOps
				if op.val > 0x60 {
					want++
				}
				if st.numOps != want {
					return "snapshot-step", fmt.Sprintf("event %d: NumOps went from %d to %d across opcode 0x%02x (expected %d)", i, bo.numOps, st.numOps, op.val, want)
				}
			}
			bo = nil
		}
	}
	return "", ""
}

func truthy(b []byte) bool {
	for i, c := range b {
		if c != 0 {
			return !(i == len(b)-1 && c == 0x80)
		}
	}
	return false
}

// condStepCheck is the reference transition of the conditional stack for IF / NOTIF / ELSE / ENDIF.
func condStepCheck(b, a *snap) string {
	if b.early {
		return ""
	}
	op := b.scripts[b.scriptIdx][b.opIdx].val
	if op != 0x63 && op != 0x64 && op != 0x67 && op != 0x68 {
		return ""
	}
	cond := append([]int{}, b.cond...)
	data := b.data
	switch op {
	case 0x63, 0x64:
		exec := true
		if b.afterGenesis {
			for _, v := range cond {
				if v == 0 {
					exec = false
				}
			}
		}
		val := 0
		if exec {
			if len(cond) == 0 || cond[len(cond)-1] == 1 {
				if len(data) == 0 {
					return fmt.Sprintf("opcode 0x%02x completed in an executing branch with an empty data stack", op)
				}
				v := truthy(data[len(data)-1])
				if op == 0x64 {
					v = !v
				}
				if v {
					val = 1
				}
				data = data[:len(data)-1]
			} else {
				val = 2
			}
		}
		cond = append(cond, val)
	case 0x67:
		if len(cond) == 0 {
			return "OP_ELSE completed with an empty conditional stack"
		}
		switch cond[len(cond)-1] {
		case 1:
			cond[len(cond)-1] = 0
		case 0:
			cond[len(cond)-1] = 1
		}
	case 0x68:
		if len(cond) == 0 {
			return "OP_ENDIF completed with an empty conditional stack"
		}
		cond = cond[:len(cond)-1]
	}
	same := len(cond) == len(a.cond)
	for i := 0; same && i < len(cond); i++ {
		same = cond[i] == a.cond[i]
	}
	if !same || !sameStack(data, a.data) {
		return fmt.Sprintf("after conditional opcode 0x%02x at %d:%d the snapshot shows cond %v / data depth %d, the instruction's effect on the previous snapshot is cond %v / data depth %d", op, b.scriptIdx, b.opIdx, a.cond, len(a.data), cond, len(data))
	}
	return ""
}

func scriptNumBytes(n int) []byte {
	if n == 0 {
		return []byte{}
	}
	neg := n < 0
	if neg {
		n = -n
	}
	var b []byte
	for n > 0 {
		b = append(b, byte(n&0xff))
		n >>= 8
	}
	if b[len(b)-1]&0x80 != 0 {
		if neg {
			b = append(b, 0x80)
		} else {
			b = append(b, 0)
		}
	} else if neg {
		b[len(b)-1] |= 0x80
	}
	return b
}

// dataMovementCheck is the reference step function for opcodes whose effect is
// pure data movement, applied between the BeforeExecuteOpcode and
// AfterExecuteOpcode snapshots of a completed opcode in an executing branch.
func dataMovementCheck(b, a *snap) string {
	if len(b.cond) != 0 || b.early || a.early {
		return ""
	}
	op := b.scripts[b.scriptIdx][b.opIdx]
	d := copyStack(b.data)
	al := copyStack(b.alt)
	n := len(d)
	need := func(k int) bool { return n >= k }
	under := false
	top := func(i int) []byte { return d[n-1-i] }
	switch v := op.val; {
	case v == 0x00:
		d = append(d, []byte{})
	case v >= 0x01 && v <= 0x4e:
		d = append(d, op.data)
	case v == 0x4f:
		d = append(d, []byte{0x81})
	case v >= 0x51 && v <= 0x60:
		d = append(d, []byte{v - 0x50})
	case v == 0x61: // NOP
	case v == 0x6b: // TOALTSTACK
		if under = !need(1); !under {
			al = append(al, top(0))
			d = d[:n-1]
		}
	case v == 0x6c: // FROMALTSTACK
		if under = len(al) < 1; !under {
			d = append(d, al[len(al)-1])
			al = al[:len(al)-1]
		}
	case v == 0x6d: // 2DROP
		if under = !need(2); !under {
			d = d[:n-2]
		}
	case v == 0x6e: // 2DUP
		if under = !need(2); !under {
			d = append(d, top(1), top(0))
		}
	case v == 0x6f: // 3DUP
		if under = !need(3); !under {
			d = append(d, top(2), top(1), top(0))
		}
	case v == 0x70: // 2OVER
		if under = !need(4); !under {
			d = append(d, top(3), top(2))
		}
	case v == 0x71: // 2ROT
		if under = !need(6); !under {
			x1, x2 := top(5), top(4)
			d = append(append(d[:n-6:n-6], d[n-4:]...), x1, x2)
		}
	case v == 0x72: // 2SWAP
		if under = !need(4); !under {
			x1, x2 := top(3), top(2)
			d = append(append(d[:n-4:n-4], d[n-2:]...), x1, x2)
		}
	case v == 0x74: // DEPTH
		d = append(d, scriptNumBytes(n))
	case v == 0x75: // DROP
		if under = !need(1); !under {
			d = d[:n-1]
		}
	case v == 0x76: // DUP
		if under = !need(1); !under {
			d = append(d, top(0))
		}
	case v == 0x77: // NIP
		if under = !need(2); !under {
			d = append(d[:n-2:n-2], top(0))
		}
	case v == 0x78: // OVER
		if under = !need(2); !under {
			d = append(d, top(1))
		}
	case v == 0x7b: // ROT
		if under = !need(3); !under {
			x := top(2)
			d = append(append(d[:n-3:n-3], d[n-2:]...), x)
		}
	case v == 0x7c: // SWAP
		if under = !need(2); !under {
			x1, x2 := top(1), top(0)
			d = append(d[:n-2:n-2], x2, x1)
		}
	case v == 0x7d: // TUCK
		if under = !need(2); !under {
			x1, x2 := top(1), top(0)
			d = append(d[:n-2:n-2], x2, x1, x2)
		}
	case v == 0x7e: // CAT
		if under = !need(2); !under {
			x := append(append([]byte{}, top(1)...), top(0)...)
			d = append(d[:n-2:n-2], x)
		}
	case v == 0x7f: // SPLIT (only for plainly encoded small positions; anything else is left to the interpreter)
		if !need(2) {
			under = true
			break
		}
		pos, okNum := smallNum(top(0))
		x := top(1)
		if !okNum || pos < 0 || pos > len(x) {
			return ""
		}
		d = append(d[:n-2:n-2], append([]byte{}, x[:pos]...), append([]byte{}, x[pos:]...))
	case v == 0x82: // SIZE
		if under = !need(1); !under {
			d = append(d, scriptNumBytes(len(top(0))))
		}
	default:
		return ""
	}
	if under {
		return fmt.Sprintf("opcode 0x%02x completed although the stack (depth %d) is too shallow for it", op.val, n)
	}
	if !sameStack(d, a.data) || !sameStack(al, a.alt) {
		return fmt.Sprintf("after opcode 0x%02x at %d:%d the snapshot is not the instruction's effect on the previous snapshot: data stack %s, expected %s; alt %d items, expected %d",
			op.val, b.scriptIdx, b.opIdx, stackStr(a.data), stackStr(d), len(a.alt), len(al))
	}
	return ""
}

// smallNum decodes a minimally encoded non-negative script number of at most 2 bytes.
func smallNum(b []byte) (int, bool) {
	switch len(b) {
	case 0:
		return 0, true
	case 1:
		if b[0]&0x80 != 0 || b[0] == 0 {
			return 0, false
		}
		return int(b[0]), true
	case 2:
		if b[1]&0x80 != 0 || (b[1] == 0 && b[0]&0x80 == 0) {
			return 0, false
		}
		return int(b[0]) | int(b[1])<<8, true
	}
	return 0, false
}

func stackStr(s [][]byte) string {
	out := "["
	for i, b := range s {
		if i > 0 {
			out += " "
		}
		if len(b) > 12 {
			out += fmt.Sprintf("%x…", b[:12])
		} else {
			out += fmt.Sprintf("%x", b)
		}
		if i > 10 {
			out += " …"
			break
		}
	}
	return out + "]"
}
