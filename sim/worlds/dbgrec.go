package worlds

import (
	"bytes"
	"encoding/binary"
	"fmt"
	"strings"

	"github.com/libsv/go-bt/v2/bscript/interpreter"

	"verif/sim/kernel"
)

// The observer party behind the interpreter.Debugger seam: it records a deep
// copy of every snapshot it is handed and may then scribble over the snapshot.

type evKind uint8

const (
	evBE evKind = iota
	evAE
	evBS
	evAS
	evBO
	evAO
	evBC
	evAC
	evOK
	evER
	evPUb
	evPUa
	evPOb
	evPOa
	evKinds
)

var evNames = [...]string{"BeforeExecute", "AfterExecute", "BeforeStep", "AfterStep", "BeforeExecuteOpcode", "AfterExecuteOpcode",
	"BeforeScriptChange", "AfterScriptChange", "AfterSuccess", "AfterError", "BeforeStackPush", "AfterStackPush", "BeforeStackPop", "AfterStackPop"}

type opSnap struct {
	val  byte
	len  int // the opcode's declared length class (ParsedOpcode.Length)
	data []byte
}

// snap is a deep copy of an interpreter.State.
type snap struct {
	data, alt, els, saved [][]byte
	cond                  []int
	scripts               [][]opSnap
	scriptIdx, opIdx      int
	lastSep, numOps       int
	flags                 uint32
	finished              bool
	afterGenesis, early   bool
	key                   string
	skey                  string // like key, but push payloads inside Scripts are not part of it
}

type event struct {
	kind evKind
	st   *snap
	arg  []byte
	err  error
}

func copyStack(s [][]byte) [][]byte {
	out := make([][]byte, len(s))
	for i, b := range s {
		out[i] = append([]byte{}, b...)
	}
	return out
}

func hashStack(h uint64, name byte, s [][]byte) uint64 {
	h = (h ^ uint64(name)) * 1099511628211
	for _, b := range s {
		h = kernel.FNV64b(h, b)
		h = (h ^ 0x1ff) * 1099511628211
	}
	return (h ^ uint64(len(s))) * 1099511628211
}

func snapBytes(s *interpreter.State) int {
	n := 0
	for _, st := range [][][]byte{s.DataStack, s.AltStack, s.ElseStack, s.SavedFirstStack} {
		for _, b := range st {
			n += len(b) + 8
		}
	}
	return n
}

func takeSnap(s *interpreter.State) *snap {
	n := &snap{data: copyStack(s.DataStack), alt: copyStack(s.AltStack), els: copyStack(s.ElseStack), saved: copyStack(s.SavedFirstStack),
		cond: append([]int{}, s.CondStack...), scriptIdx: s.ScriptIdx, opIdx: s.OpcodeIdx, lastSep: s.LastCodeSeparatorIdx, numOps: s.NumOps,
		flags: uint32(s.Flags), finished: s.IsFinished, afterGenesis: s.Genesis.AfterGenesis, early: s.Genesis.EarlyReturn}
	for _, ps := range s.Scripts {
		ops := make([]opSnap, len(ps))
		for j, op := range ps {
			ops[j] = opSnap{op.Value(), op.Length(), append([]byte{}, op.Data...)}
		}
		n.scripts = append(n.scripts, ops)
	}
	h := hashStack(0xcbf29ce484222325, 'D', n.data)
	h = hashStack(h, 'A', n.alt)
	h = hashStack(h, 'E', n.els)
	h = hashStack(h, 'S', n.saved)
	var sb strings.Builder
	fmt.Fprintf(&sb, "stacks#%x D=%d A=%d E=%d S=%d C%v pc=%d:%d sep=%d ops=%d fl=%x fin=%v g=%v/%v scripts=%d:", h, len(n.data), len(n.alt), len(n.els), len(n.saved), n.cond, n.scriptIdx, n.opIdx, n.lastSep, n.numOps, n.flags, n.finished, n.afterGenesis, n.early, len(n.scripts))
	base := sb.String()
	var sk strings.Builder
	for _, ops := range n.scripts {
		h := uint64(14695981039346656037)
		h2 := h
		for _, op := range ops {
			h = (h ^ uint64(op.val)) * 1099511628211
			h = (h ^ uint64(uint32(op.len))) * 1099511628211
			h2 = (h2 ^ uint64(op.val)) * 1099511628211
			h2 = (h2 ^ uint64(uint32(op.len))) * 1099511628211
			h2 = (h2 ^ uint64(len(op.data))) * 1099511628211
			h = kernel.FNV64b(h, op.data)
			h = (h ^ 0xff) * 1099511628211
		}
		fmt.Fprintf(&sb, "%d/%x,", len(ops), h)
		fmt.Fprintf(&sk, "%d/%x,", len(ops), h2)
	}
	n.key = sb.String()
	n.skey = base + sk.String()
	return n
}

// takeSnapLight fingerprints a State without copying its stack data (the key has the same ingredients as takeSnap's).
func takeSnapLight(s *interpreter.State) *snap {
	n := &snap{cond: append([]int{}, s.CondStack...), scriptIdx: s.ScriptIdx, opIdx: s.OpcodeIdx, lastSep: s.LastCodeSeparatorIdx, numOps: s.NumOps,
		flags: uint32(s.Flags), finished: s.IsFinished, afterGenesis: s.Genesis.AfterGenesis, early: s.Genesis.EarlyReturn}
	h := hashStack(0xcbf29ce484222325, 'D', s.DataStack)
	h = hashStack(h, 'A', s.AltStack)
	h = hashStack(h, 'E', s.ElseStack)
	h = hashStack(h, 'S', s.SavedFirstStack)
	var sb strings.Builder
	fmt.Fprintf(&sb, "stacks#%x D=%d A=%d E=%d S=%d C%v pc=%d:%d sep=%d ops=%d fl=%x fin=%v g=%v/%v scripts=%d:", h, len(s.DataStack), len(s.AltStack), len(s.ElseStack), len(s.SavedFirstStack), n.cond, n.scriptIdx, n.opIdx, n.lastSep, n.numOps, n.flags, n.finished, n.afterGenesis, n.early, len(s.Scripts))
	for _, ps := range s.Scripts {
		h := uint64(14695981039346656037)
		for _, op := range ps {
			h = (h ^ uint64(op.Value())) * 1099511628211
			h = (h ^ uint64(uint32(op.Length()))) * 1099511628211
			h = kernel.FNV64b(h, op.Data)
			h = (h ^ 0xff) * 1099511628211
		}
		fmt.Fprintf(&sb, "%d/%x,", len(ps), h)
	}
	n.key = sb.String()
	n.skey = n.key
	return n
}

// describe writes a snapshot out for a violation message.
func (n *snap) describe() string {
	return fmt.Sprintf("{data %s alt %s else %s saved %s cond %v pc %d:%d numOps %d finished %v}", stackStr(n.data), stackStr(n.alt), stackStr(n.els), stackStr(n.saved), n.cond, n.scriptIdx, n.opIdx, n.numOps, n.finished)
}

// unparseOps re-serialises a recorded script (own implementation of the push encodings).
func unparseOps(ops []opSnap) []byte {
	var b []byte
	for _, op := range ops {
		b = append(b, op.val)
		switch op.len {
		case 1:
		case -1:
			b = append(b, byte(len(op.data)))
			b = append(b, op.data...)
		case -2:
			b = binary.LittleEndian.AppendUint16(b, uint16(len(op.data)))
			b = append(b, op.data...)
		case -4:
			b = binary.LittleEndian.AppendUint32(b, uint32(len(op.data)))
			b = append(b, op.data...)
		default: // fixed-length pushes and the raw tail after a top-level OP_RETURN
			b = append(b, op.data...)
		}
	}
	return b
}

// scribbleMode: how the observer misbehaves after recording.
type scribbleMode struct {
	on     bool
	all    bool
	kinds  uint32 // bit per evKind (seeded mode)
	fields uint32 // bit 0 data,1 alt,2 else,3 saved,4 cond
	style  int    // 0 invert bytes, 1 replace items, 2 truncate/extend lists, 3 everything
}

func scribbleStack(pp *[][]byte, style int) {
	s := *pp
	if style == 0 || style == 3 {
		for _, it := range s {
			for i := range it {
				it[i] ^= 0xff
			}
		}
	}
	if style == 1 || style == 3 {
		for i := range s {
			if len(s[i]) > 0 {
				s[i] = append(s[i][:len(s[i])/2], 0xde, 0xad) // shrink in place then grow
			} else {
				s[i] = append(s[i], 0x01)
			}
		}
	}
	if style == 2 || style == 3 {
		if len(s) > 0 {
			s = append(s[:0], []byte{0x01}, []byte{0x51, 0x51})
		} else {
			s = append(s, []byte{0x01})
		}
		*pp = s
	}
}

func (m scribbleMode) apply(kind evKind, st *interpreter.State) bool {
	if !m.on || st == nil {
		return false
	}
	fields, style := m.fields, m.style
	if m.all {
		fields, style = 0x1f, 3
	} else if m.kinds&(1<<uint(kind)) == 0 {
		return false
	}
	if fields&1 != 0 {
		scribbleStack(&st.DataStack, style)
	}
	if fields&2 != 0 {
		scribbleStack(&st.AltStack, style)
	}
	if fields&4 != 0 {
		scribbleStack(&st.ElseStack, style)
	}
	if fields&8 != 0 {
		scribbleStack(&st.SavedFirstStack, style)
	}
	if fields&16 != 0 {
		for i := range st.CondStack {
			st.CondStack[i] = (st.CondStack[i] + 1) % 3
		}
		if style >= 2 {
			st.CondStack = append(st.CondStack[:0], 0, 1)
		}
	}
	return true
}

// recorder implements interpreter.Debugger.
type recorder struct {
	events    []event
	mode      scribbleMode
	scribbled int
	yield     func(kind evKind) // optional: scheduler yield point (C18-B)
	max       int
	volume    int // bytes of snapshot data seen so far
	maxVolume int
	light     bool                 // do not deep-copy snapshots: keep hashes and sizes only (programs with MiB-sized items)
	keep      bool                 // retain the *State objects handed to BeforeStep (for resume runs)
	states    []*interpreter.State // aligned with events (nil where not kept)
}

// cloneState deep-copies a State through its exported fields (ParsedOpcode values are copied whole).
func cloneState(s *interpreter.State) *interpreter.State {
	n := *s
	n.DataStack, n.AltStack, n.ElseStack, n.SavedFirstStack = copyStack(s.DataStack), copyStack(s.AltStack), copyStack(s.ElseStack), copyStack(s.SavedFirstStack)
	n.CondStack = append([]int{}, s.CondStack...)
	n.Scripts = make([]interpreter.ParsedScript, len(s.Scripts))
	for i, ps := range s.Scripts {
		n.Scripts[i] = append(interpreter.ParsedScript{}, ps...)
		for j := range n.Scripts[i] {
			// push payloads alias the executing script buffer (some opcodes rewrite them in place): keep our own copy
			n.Scripts[i][j].Data = append([]byte(nil), n.Scripts[i][j].Data...)
		}
	}
	return &n
}

// errTooBig is the panic value when observing a run would copy too much data.
const errTooBig = "verif: snapshot volume budget exceeded"

func (r *recorder) rec(kind evKind, st *interpreter.State, arg []byte, err error) {
	if r.max > 0 && len(r.events) >= r.max {
		panic("verif: callback budget exceeded")
	}
	e := event{kind: kind, err: err}
	if st != nil {
		if r.maxVolume > 0 {
			r.volume += snapBytes(st)
			if r.volume > r.maxVolume {
				panic(errTooBig)
			}
		}
		if r.light {
			e.st = takeSnapLight(st)
		} else {
			e.st = takeSnap(st)
		}
	}
	if arg != nil {
		if r.light && len(arg) > 4096 {
			e.arg = []byte(fmt.Sprintf("item of %d bytes #%x", len(arg), kernel.FNV64b(14695981039346656037, arg)))
		} else {
			e.arg = append([]byte{}, arg...)
		}
	}
	r.events = append(r.events, e)
	if r.keep {
		if kind == evBS && st != nil {
			r.states = append(r.states, cloneState(st))
		} else {
			r.states = append(r.states, nil)
		}
	}
	if r.mode.apply(kind, st) {
		r.scribbled++
	}
	if r.yield != nil {
		r.yield(kind)
	}
}

func (r *recorder) BeforeExecute(s *interpreter.State)             { r.rec(evBE, s, nil, nil) }
func (r *recorder) AfterExecute(s *interpreter.State)              { r.rec(evAE, s, nil, nil) }
func (r *recorder) BeforeStep(s *interpreter.State)                { r.rec(evBS, s, nil, nil) }
func (r *recorder) AfterStep(s *interpreter.State)                 { r.rec(evAS, s, nil, nil) }
func (r *recorder) BeforeExecuteOpcode(s *interpreter.State)       { r.rec(evBO, s, nil, nil) }
func (r *recorder) AfterExecuteOpcode(s *interpreter.State)        { r.rec(evAO, s, nil, nil) }
func (r *recorder) BeforeScriptChange(s *interpreter.State)        { r.rec(evBC, s, nil, nil) }
func (r *recorder) AfterScriptChange(s *interpreter.State)         { r.rec(evAC, s, nil, nil) }
func (r *recorder) AfterSuccess(s *interpreter.State)              { r.rec(evOK, s, nil, nil) }
func (r *recorder) AfterError(s *interpreter.State, err error)     { r.rec(evER, s, nil, err) }
func (r *recorder) BeforeStackPush(s *interpreter.State, d []byte) { r.rec(evPUb, s, nz(d), nil) }
func (r *recorder) AfterStackPush(s *interpreter.State, d []byte)  { r.rec(evPUa, s, nz(d), nil) }
func (r *recorder) BeforeStackPop(s *interpreter.State)            { r.rec(evPOb, s, nil, nil) }
func (r *recorder) AfterStackPop(s *interpreter.State, d []byte)   { r.rec(evPOa, s, nz(d), nil) }

func nz(b []byte) []byte {
	if b == nil {
		return []byte{}
	}
	return b
}

func (e *event) String() string {
	s := evNames[e.kind]
	if e.arg != nil {
		s += fmt.Sprintf("(%x)", e.arg)
	}
	if e.err != nil {
		s += " err=" + e.err.Error()
	}
	if e.st != nil {
		s += fmt.Sprintf(" pc=%d:%d D=%d A=%d C=%v fin=%v", e.st.scriptIdx, e.st.opIdx, len(e.st.data), len(e.st.alt), e.st.cond, e.st.finished)
	}
	return s
}

// sameEvent compares two recorded events completely.
func sameEvent(a, b *event) bool {
	if a.kind != b.kind || !bytes.Equal(a.arg, b.arg) || (a.arg == nil) != (b.arg == nil) {
		return false
	}
	if (a.err == nil) != (b.err == nil) || (a.err != nil && a.err.Error() != b.err.Error()) {
		return false
	}
	if (a.st == nil) != (b.st == nil) {
		return false
	}
	return a.st == nil || a.st.key == b.st.key
}

// diffHistoriesLoose is diffHistories with push payloads inside Scripts left out of the comparison.
func diffHistoriesLoose(a, b []event) string {
	aa, bb := make([]event, len(a)), make([]event, len(b))
	for i := range a {
		aa[i] = a[i]
		if a[i].st != nil {
			cp := *a[i].st
			cp.key = cp.skey
			aa[i].st = &cp
		}
	}
	for i := range b {
		bb[i] = b[i]
		if b[i].st != nil {
			cp := *b[i].st
			cp.key = cp.skey
			bb[i].st = &cp
		}
	}
	return diffHistories(aa, bb)
}

// diffHistories returns "" when equal, else a description of the first difference.
func diffHistories(a, b []event) string {
	n := len(a)
	if len(b) < n {
		n = len(b)
	}
	for i := 0; i < n; i++ {
		if !sameEvent(&a[i], &b[i]) {
			d := fmt.Sprintf("event %d differs: %s  vs  %s", i, a[i].String(), b[i].String())
			if a[i].st != nil && b[i].st != nil && a[i].st.key != b[i].st.key {
				d += fmt.Sprintf(" | snapshots: %s  vs  %s", clip(a[i].st.describe(), 400), clip(b[i].st.describe(), 400))
			}
			return d
		}
	}
	if len(a) != len(b) {
		return fmt.Sprintf("history lengths differ: %d vs %d events", len(a), len(b))
	}
	return ""
}
